#!/opt/veriftools/pyvenv/bin/python3
import json, jsonschema, sys, glob
jsonschema.validate(json.load(open('/verif/MANIFEST.json')), json.load(open('/root/.vp/MANIFEST.schema.json')))
print('manifest ok')
es = json.load(open('/root/.vp/EVIDENCE.schema.json'))
for f in sorted(glob.glob('/verif/evidence/*.json')):
    jsonschema.validate(json.load(open(f)), es)
    print('evidence ok', f)
