#!/usr/bin/env python3
"""Generates /repo/internal/execution/verif_contracts_dispatch.go: contracts for the reflect.Type
dispatch layer (eng_*.go). One clause per arm: for element type T the call must have the effect of
the kernel of the same operation and the same type, with the operand roles the method promises."""
out = []
def w(s=""):
    out.extend(s.split("\n"))

SUF = {"I":"int","I8":"int8","I16":"int16","I32":"int32","I64":"int64","U":"uint","U8":"uint8","U16":"uint16","U32":"uint32","U64":"uint64",
       "F32":"float32","F64":"float64","C64":"complex64","C128":"complex128","Str":"string","B":"bool","Uintptr":"uintptr"}
INTS = ["int","int8","int16","int32","int64","uint","uint8","uint16","uint32","uint64"]
FLOATS = ["float32","float64"]
CPLX = ["complex64","complex128"]
NUM = INTS + FLOATS + CPLX
ARITH_T = {"Add": NUM + ["string"], "Sub": NUM, "Mul": NUM, "Div": NUM, "Mod": INTS + FLOATS, "Pow": FLOATS + CPLX}
ORD = INTS + FLOATS + ["string"]
EQT = ["bool"] + INTS + ["uintptr"] + FLOATS + CPLX + ["string", "unsafe.Pointer"]
CMP_T = {"Gt": ORD, "Gte": ORD, "Lt": ORD, "Lte": ORD, "Eq": EQT, "Ne": EQT}
CMPFN = {"Gt":"gogt","Gte":"goge","Lt":"golt","Lte":"gole","Eq":"goeq","Ne":"gone"}
SIGNED = ["int","int8","int16","int32","int64"] + FLOATS
UN_T = {"Neg": NUM, "Inv": NUM, "Square": NUM, "Cube": NUM, "Abs": SIGNED, "Sign": SIGNED, "Sqrt": FLOATS + CPLX, "Cbrt": FLOATS,
        "InvSqrt": FLOATS, "Exp": FLOATS + CPLX, "Log": FLOATS + CPLX, "Log2": FLOATS, "Log10": FLOATS + CPLX, "Tanh": FLOATS + CPLX}

def binop(op, T):
    if op == "Mod" and T in FLOATS: return "op_Mod_" + T
    if op == "Pow": return "op_Pow_" + T
    return "op_" + op
def unop(op, T):
    if op in ("Neg", "Square", "Cube"): return "un_" + op
    return "un_%s_%s" % (op, T)
def one(T):  return {"bool": "true", "string": '"true"'}.get(T, "%s(1)" % T)
def zero(T): return {"bool": "false", "string": '"false"'}.get(T, "%s(0)" % T)
def V(h, T): return "%sv_%s" % (h, T.replace(".", "_"))

def header(fn, params):
    w("//@ func execution.E.%s" % fn)
    w("//@   props %s" % params)
    w("//@   config divzero off")

def lets(hs, types):
    for T in types:
        for h in hs:
            w('//@   let %s = tview("%s", %s)' % (V(h, T), T, h))

def unsupported(types):
    w("//@   ensures [unsupported] (%s) ==> err != nil" % " && ".join('t != rtype("%s")' % T for T in types))

def assigns(hs, types, extra=""):
    w("//@   assigns " + ", ".join("whole(%s)" % V(h, T) for T in types for h in hs) + extra)

def alias_req(a, b):
    w("//@   requires [alias_%s_%s] %s.Raw.arr != %s.Raw.arr || %s.Raw.off == %s.Raw.off" % (a, b, a, b, a, b))

# ---------------- binary arithmetic, plain ----------------
def bin_plain(fn, op, types, opfn, props, divguard=True):
    header(fn, props)
    lets(["a", "b"], types)
    alias_req("a", "b")
    for T in types:
        av, bv = V("a", T), V("b", T)
        w('//@   requires [len_%s] t == rtype("%s") && len(%s) != 1 && len(%s) != 1 ==> len(%s) >= len(%s)' % (T, T, av, bv, bv, av))
    for T in types:
        av, bv = V("a", T), V("b", T)
        f = opfn(op, T)
        g = lambda y: ("old(%s) != %s(0) && " % (y, T)) if (divguard and op == "Div" and T in INTS) else ""
        vv = "(forall i :: 0 <= i && i < len(%s) && %strue ==> %s[i] == %s(old(%s[i]), old(%s[i])))" % (av, g("%s[i]" % bv), av, f, av, bv)
        sv = "(forall i :: 0 <= i && i < len(%s) && %strue ==> %s[i] == %s(old(%s[0]), old(%s[i])))" % (bv, g("%s[i]" % bv), bv, f, av, bv)
        vs = "(forall i :: 0 <= i && i < len(%s) && %strue ==> %s[i] == %s(old(%s[i]), old(%s[0])))" % (av, g("%s[0]" % bv), av, f, av, bv)
        w('//@   ensures [arm_%s] t == rtype("%s") ==> ((len(%s) != 1 && len(%s) != 1) || (len(%s) == 1 && len(%s) == 1) ==> %s) && (len(%s) == 1 && len(%s) != 1 ==> %s) && (len(%s) != 1 && len(%s) == 1 ==> %s)'
          % (T, T, av, bv, av, bv, vv, av, bv, sv, av, bv, vs))
    for T in types:
        av, bv = V("a", T), V("b", T)
        w('//@   ensures [b_kept_%s] t == rtype("%s") && !(len(%s) == 1 && len(%s) != 1) && a.Raw.arr != b.Raw.arr ==> unchanged(%s)' % (T, T, av, bv, bv))
    unsupported(types)
    assigns(["a", "b"], types)
    w("")

for op, types in ARITH_T.items():
    bin_plain(op, op, types, binop, "C06 C17")

def mm(op, T): return "op_" + op
for op in ("Min", "Max"):
    # min/max kernels: x is the destination's element (see minmax_* schemas): vv op(a,b), sv op(b,a), vs op(a,b)
    fn = op + "Between"
    types = ORD
    header(fn, "C06 C17")
    lets(["a", "b"], types)
    alias_req("a", "b")
    for T in types:
        av, bv = V("a", T), V("b", T)
        w('//@   requires [len_%s] t == rtype("%s") && len(%s) != 1 && len(%s) != 1 ==> len(%s) >= len(%s)' % (T, T, av, bv, bv, av))
    for T in types:
        av, bv = V("a", T), V("b", T)
        f = "op_" + op
        vv = "(forall i :: 0 <= i && i < len(%s) ==> %s[i] == %s(old(%s[i]), old(%s[i])))" % (av, av, f, av, bv)
        sv = "(forall i :: 0 <= i && i < len(%s) ==> %s[i] == %s(old(%s[i]), old(%s[0])))" % (bv, bv, f, bv, av)
        vs = "(forall i :: 0 <= i && i < len(%s) ==> %s[i] == %s(old(%s[i]), old(%s[0])))" % (av, av, f, av, bv)
        w('//@   ensures [arm_%s] t == rtype("%s") ==> ((len(%s) != 1 && len(%s) != 1) || (len(%s) == 1 && len(%s) == 1) ==> %s) && (len(%s) == 1 && len(%s) != 1 ==> %s) && (len(%s) != 1 && len(%s) == 1 ==> %s)'
          % (T, T, av, bv, av, bv, vv, av, bv, sv, av, bv, vs))
    unsupported(types)
    assigns(["a", "b"], types)
    w("")

# ---------------- binary arithmetic, iterator ----------------
def summ(schema, op, dest, others, scalars, its):
    args = ["contents(%s)" % dest, "old(contents(%s))" % dest, "%s.off" % dest]
    for o in others:
        args += ["old(contents(%s))" % o, "%s.off" % o]
    args += scalars
    for it in its:
        args += ["%s.val" % it, 'old(gh("it_pos", %s))' % it]
    return "summ_%s_%s(%s)" % (schema, op, ", ".join(args))

def iter_reqs(pairs):
    for it, view_by_T in pairs:
        pass

def bin_iter(fn, op, types, schema_of, props, vvplain):
    header(fn, props)
    lets(["a", "b"], types)
    alias_req("a", "b")
    # an operand that holds a single element is read as a scalar and its iterator (possibly nil) is not used
    for T in types:
        av, bv = V("a", T), V("b", T)
        w('//@   requires [pos_%s] t == rtype("%s") ==> (len(%s) != 1 ==> gh("it_pos", ait) == 0) && (len(%s) != 1 ==> gh("it_pos", bit) == 0) && (len(%s) != 1 && len(%s) != 1 ==> ait.val != bit.val)' % (T, T, av, bv, av, bv))
    for T in types:
        av, bv = V("a", T), V("b", T)
        w('//@   requires [range_%s] t == rtype("%s") ==> (len(%s) != 1 ==> (forall p :: 0 <= p && p < it_len(ait) ==> 0 <= it_seq(ait, p) && it_seq(ait, p) < len(%s))) && (len(%s) != 1 ==> (forall p :: 0 <= p && p < it_len(bit) ==> 0 <= it_seq(bit, p) && it_seq(bit, p) < len(%s)))' % (T, T, av, av, bv, bv))
    for T in types:
        av, bv = V("a", T), V("b", T)
        sfx = schema_of(op, T)
        both = vvplain(op, T, av, bv)
        sv = summ(sfx("itersv"), op, bv, [], ["old(%s[0])" % av], ["bit"])
        vs = summ(sfx("itervs"), op, av, [], ["old(%s[0])" % bv], ["ait"])
        vv = summ(sfx("iter"), op, av, [bv], [], ["ait", "bit"])
        w('//@   ensures [arm_%s] t == rtype("%s") ==> (len(%s) == 1 && len(%s) == 1 ==> %s) && (len(%s) == 1 && len(%s) != 1 ==> %s) && (len(%s) != 1 && len(%s) == 1 ==> %s) && (len(%s) != 1 && len(%s) != 1 ==> %s)'
          % (T, T, av, bv, both, av, bv, sv, av, bv, vs, av, bv, vv))
    for T in types:
        av, bv = V("a", T), V("b", T)
        w('//@   ensures [b_kept_%s] t == rtype("%s") && !(len(%s) == 1 && len(%s) != 1) && a.Raw.arr != b.Raw.arr ==> unchanged(%s)' % (T, T, av, bv, bv))
    unsupported(types)
    assigns(["a", "b"], types, ', gh("it_pos", ait), gh("it_pos", bit)')
    w("")

def arith_schema(op, T):
    d = "_divint" if (op == "Div" and T in INTS) else ""
    return lambda fam: "arith_%s%s" % (fam, d)
def arith_both(op, T, av, bv):
    g = ("old(%s[0]) != %s(0) ==> " % (bv, T)) if (op == "Div" and T in INTS) else ""
    return "(%s%s[0] == %s(old(%s[0]), old(%s[0])))" % (g, av, binop(op, T), av, bv)
for op, types in ARITH_T.items():
    bin_iter(op + "Iter", op, types, arith_schema, "C06 C17", arith_both)

# ---------------- unary ----------------
for op, types in UN_T.items():
    header(op, "C12 C17")
    lets(["a"], types)
    for T in types:
        av = V("a", T)
        w('//@   ensures [arm_%s] t == rtype("%s") ==> err == nil && (forall i :: 0 <= i && i < len(%s) ==> %s[i] == %s(old(%s[i])))' % (T, T, av, av, unop(op, T), av))
    unsupported(types)
    assigns(["a"], types)
    w("")
    header(op + "Iter", "C12 C17")
    lets(["a"], types)
    w('//@   requires [pos] gh("it_pos", ait) == 0')
    for T in types:
        av = V("a", T)
        w('//@   requires [range_%s] t == rtype("%s") ==> (forall p :: 0 <= p && p < it_len(ait) ==> 0 <= it_seq(ait, p) && it_seq(ait, p) < len(%s))' % (T, T, av))
    for T in types:
        av = V("a", T)
        w('//@   ensures [arm_%s] t == rtype("%s") ==> %s' % (T, T, summ("unary_iter", op, av, [], [], ["ait"])))
    unsupported(types)
    assigns(["a"], types, ', gh("it_pos", ait)')
    w("")

# ---------------- comparisons ----------------
for op, types in CMP_T.items():
    f = CMPFN[op]
    # bool result
    header(op, "C11 C17")
    lets(["a", "b"], types)
    w('//@   let rv = tview("bool", retVal)')
    w("//@   requires [alias_r] retVal.Raw.arr != a.Raw.arr && retVal.Raw.arr != b.Raw.arr")
    for T in types:
        av, bv = V("a", T), V("b", T)
        w('//@   requires [len_%s] t == rtype("%s") ==> ((len(%s) != 1 && len(%s) != 1) || (len(%s) == 1 && len(%s) == 1) ==> len(%s) >= len(%s) && len(rv) >= len(%s)) && (len(%s) == 1 && len(%s) != 1 ==> len(%s) >= len(rv)) && (len(%s) != 1 && len(%s) == 1 ==> len(%s) >= len(rv))'
          % (T, T, av, bv, av, bv, bv, av, av, av, bv, bv, av, bv, av))
    for T in types:
        av, bv = V("a", T), V("b", T)
        vv = "(forall i :: 0 <= i && i < len(%s) ==> rv[i] == %s(old(%s[i]), old(%s[i])))" % (av, f, av, bv)
        sv = "(forall i :: 0 <= i && i < len(rv) ==> rv[i] == %s(old(%s[0]), old(%s[i])))" % (f, av, bv)
        vs = "(forall i :: 0 <= i && i < len(rv) ==> rv[i] == %s(old(%s[i]), old(%s[0])))" % (f, av, bv)
        w('//@   ensures [arm_%s] t == rtype("%s") && err == nil ==> ((len(%s) != 1 && len(%s) != 1) || (len(%s) == 1 && len(%s) == 1) ==> %s) && (len(%s) == 1 && len(%s) != 1 ==> %s) && (len(%s) != 1 && len(%s) == 1 ==> %s)'
          % (T, T, av, bv, av, bv, vv, av, bv, sv, av, bv, vs))
        w('//@   ensures [operands_%s] t == rtype("%s") ==> unchanged(%s) && unchanged(%s)' % (T, T, av, bv))
    unsupported(types)
    w("//@   assigns whole(rv)")
    w("")
    # same-type result
    stypes = [T for T in types if T != "unsafe.Pointer"]
    header(op + "Same", "C11 C17")
    lets(["a", "b"], stypes)
    alias_req("a", "b")
    for T in stypes:
        av, bv = V("a", T), V("b", T)
        w('//@   requires [len_%s] t == rtype("%s") && len(%s) != 1 && len(%s) != 1 ==> len(%s) >= len(%s)' % (T, T, av, bv, bv, av))
    for T in stypes:
        av, bv = V("a", T), V("b", T)
        r = lambda x, y: "(%s(%s, %s) ? %s : %s)" % (f, x, y, one(T), zero(T))
        vv = "(forall i :: 0 <= i && i < len(%s) ==> %s[i] == %s)" % (av, av, r("old(%s[i])" % av, "old(%s[i])" % bv))
        sv = "(forall i :: 0 <= i && i < len(%s) ==> %s[i] == %s)" % (bv, bv, r("old(%s[0])" % av, "old(%s[i])" % bv))
        vs = "(forall i :: 0 <= i && i < len(%s) ==> %s[i] == %s)" % (av, av, r("old(%s[i])" % av, "old(%s[0])" % bv))
        w('//@   ensures [arm_%s] t == rtype("%s") ==> ((len(%s) != 1 && len(%s) != 1) || (len(%s) == 1 && len(%s) == 1) ==> %s) && (len(%s) == 1 && len(%s) != 1 ==> %s) && (len(%s) != 1 && len(%s) == 1 ==> %s)'
          % (T, T, av, bv, av, bv, vv, av, bv, sv, av, bv, vs))
    for T in stypes:
        av, bv = V("a", T), V("b", T)
        w('//@   ensures [b_kept_%s] t == rtype("%s") && !(len(%s) == 1 && len(%s) != 1) && a.Raw.arr != b.Raw.arr ==> unchanged(%s)' % (T, T, av, bv, bv))
    unsupported(stypes)
    assigns(["a", "b"], stypes)
    w("")


# ---------------- comparisons, iterator variants ----------------
for op, types in CMP_T.items():
    f = CMPFN[op]
    header(op + "Iter", "C11 C17")
    lets(["a", "b"], types)
    w('//@   let rv = tview("bool", retVal)')
    w("//@   requires [alias_r] retVal.Raw.arr != a.Raw.arr && retVal.Raw.arr != b.Raw.arr")
    # an operand that holds a single element is read as a scalar and its iterator (possibly nil) is not used
    for T in types:
        av, bv = V("a", T), V("b", T)
        w('//@   requires [pos_%s] t == rtype("%s") ==> (len(%s) != 1 ==> gh("it_pos", ait) == 0 && ait.val != rit.val) && (len(%s) != 1 ==> gh("it_pos", bit) == 0 && bit.val != rit.val) && (len(%s) != 1 || len(%s) != 1 ==> gh("it_pos", rit) == 0) && (len(%s) != 1 && len(%s) != 1 ==> ait.val != bit.val)' % (T, T, av, bv, av, bv, av, bv))
    for T in types:
        av, bv = V("a", T), V("b", T)
        w('//@   requires [range_%s] t == rtype("%s") ==> (len(%s) != 1 ==> (forall p :: 0 <= p && p < it_len(ait) ==> 0 <= it_seq(ait, p) && it_seq(ait, p) < len(%s))) && (len(%s) != 1 ==> (forall p :: 0 <= p && p < it_len(bit) ==> 0 <= it_seq(bit, p) && it_seq(bit, p) < len(%s))) && (len(%s) == 1 && len(%s) == 1 ==> len(rv) >= 1) && (len(%s) != 1 || len(%s) != 1 ==> (forall p :: 0 <= p && p < it_len(rit) ==> 0 <= it_seq(rit, p) && it_seq(rit, p) < len(rv)))' % (T, T, av, av, bv, bv, av, bv, av, bv))
    for T in types:
        av, bv = V("a", T), V("b", T)
        both = "rv[0] == %s(old(%s[0]), old(%s[0]))" % (f, av, bv)
        sv = summ("cmp_itersv", op, "rv", [bv], ["old(%s[0])" % av], ["bit", "rit"])
        vs = summ("cmp_itervs", op, "rv", [av], ["old(%s[0])" % bv], ["ait", "rit"])
        vv = summ("cmp_iter", op, "rv", [av, bv], [], ["ait", "bit", "rit"])
        w('//@   ensures [arm_%s] t == rtype("%s") && err == nil ==> (len(%s) == 1 && len(%s) == 1 ==> %s) && (len(%s) == 1 && len(%s) != 1 ==> %s) && (len(%s) != 1 && len(%s) == 1 ==> %s) && (len(%s) != 1 && len(%s) != 1 ==> %s)'
          % (T, T, av, bv, both, av, bv, sv, av, bv, vs, av, bv, vv))
    w("//@   assigns whole(rv), gh(\"it_pos\", ait), gh(\"it_pos\", bit), gh(\"it_pos\", rit)")
    w("")
    stypes = [T for T in types if T != "unsafe.Pointer"]
    header(op + "SameIter", "C11 C17")
    lets(["a", "b"], stypes)
    alias_req("a", "b")
    for T in stypes:
        av, bv = V("a", T), V("b", T)
        w('//@   requires [pos_%s] t == rtype("%s") ==> (len(%s) != 1 ==> gh("it_pos", ait) == 0) && (len(%s) != 1 ==> gh("it_pos", bit) == 0) && (len(%s) != 1 && len(%s) != 1 ==> ait.val != bit.val)' % (T, T, av, bv, av, bv))
    for T in stypes:
        av, bv = V("a", T), V("b", T)
        w('//@   requires [range_%s] t == rtype("%s") ==> (len(%s) != 1 ==> (forall p :: 0 <= p && p < it_len(ait) ==> 0 <= it_seq(ait, p) && it_seq(ait, p) < len(%s))) && (len(%s) != 1 ==> (forall p :: 0 <= p && p < it_len(bit) ==> 0 <= it_seq(bit, p) && it_seq(bit, p) < len(%s)))' % (T, T, av, av, bv, bv))
    for T in stypes:
        av, bv = V("a", T), V("b", T)
        both = "%s[0] == (%s(old(%s[0]), old(%s[0])) ? %s : %s)" % (av, f, av, bv, one(T), zero(T))
        sv = summ("cmp_sameitersv", op, bv, [], ["old(%s[0])" % av], ["bit"])
        vs = summ("cmp_sameitervs", op, av, [], ["old(%s[0])" % bv], ["ait"])
        vv = summ("cmp_sameiter", op, av, [bv], [], ["ait", "bit"])
        w('//@   ensures [arm_%s] t == rtype("%s") ==> (len(%s) == 1 && len(%s) == 1 ==> %s) && (len(%s) == 1 && len(%s) != 1 ==> %s) && (len(%s) != 1 && len(%s) == 1 ==> %s) && (len(%s) != 1 && len(%s) != 1 ==> %s)'
          % (T, T, av, bv, both, av, bv, sv, av, bv, vs, av, bv, vv))
    for T in stypes:
        av, bv = V("a", T), V("b", T)
        w('//@   ensures [b_kept_%s] t == rtype("%s") && !(len(%s) == 1 && len(%s) != 1) && a.Raw.arr != b.Raw.arr ==> unchanged(%s)' % (T, T, av, bv, bv))
    unsupported(stypes)
    assigns(["a", "b"], stypes, ', gh("it_pos", ait), gh("it_pos", bit)')
    w("")

# ---------------- min/max between, iterator ----------------
for op in ("Min", "Max"):
    types = ORD
    header(op + "BetweenIter", "C06 C17")
    lets(["a", "b"], types)
    alias_req("a", "b")
    w('//@   requires [pos] gh("it_pos", ait) == 0 && gh("it_pos", bit) == 0 && ait.val != bit.val')
    for T in types:
        av, bv = V("a", T), V("b", T)
        w('//@   requires [range_%s] t == rtype("%s") ==> (forall p :: 0 <= p && p < it_len(ait) ==> 0 <= it_seq(ait, p) && it_seq(ait, p) < len(%s)) && (forall p :: 0 <= p && p < it_len(bit) ==> 0 <= it_seq(bit, p) && it_seq(bit, p) < len(%s))' % (T, T, av, bv))
    for T in types:
        av, bv = V("a", T), V("b", T)
        both = "%s[0] == op_%s(old(%s[0]), old(%s[0]))" % (av, op, av, bv)
        sv = summ("minmax_itersv", op, bv, [], ["old(%s[0])" % av], ["bit"])
        vs = summ("minmax_itervs", op, av, [], ["old(%s[0])" % bv], ["ait"])
        vv = summ("minmax_iter", op, av, [bv], [], ["ait", "bit"])
        w('//@   ensures [arm_%s] t == rtype("%s") ==> (len(%s) == 1 && len(%s) == 1 ==> %s) && (len(%s) == 1 && len(%s) != 1 ==> %s) && (len(%s) != 1 && len(%s) == 1 ==> %s) && (len(%s) != 1 && len(%s) != 1 ==> %s)'
          % (T, T, av, bv, both, av, bv, sv, av, bv, vs, av, bv, vv))
    unsupported(types)
    assigns(["a", "b"], types, ', gh("it_pos", ait), gh("it_pos", bit)')
    w("")

# ---------------- binary arithmetic with a separate destination: Incr (dest += a op b) and Recv (dest = a op b) ----------------
def bin_dest(fn, op, types, dest, incr):
    header(fn, "C06 C07 C17")
    lets(["a", "b", dest], types)
    alias_req("a", "b")
    w("//@   requires [dest_storage] %s.Raw.arr != a.Raw.arr && %s.Raw.arr != b.Raw.arr" % (dest, dest))
    for T in types:
        av, bv, dv = V("a", T), V("b", T), V(dest, T)
        if incr:
            w('//@   requires [len_%s] t == rtype("%s") ==> (len(%s) != 1 && len(%s) != 1 ==> len(%s) >= len(%s) && len(%s) >= len(%s)) && (len(%s) == 1 && len(%s) != 1 ==> len(%s) >= len(%s)) && (len(%s) != 1 && len(%s) == 1 ==> len(%s) >= len(%s))'
              % (T, T, av, bv, bv, av, dv, av, av, bv, bv, dv, av, bv, av, dv))
        else:
            w('//@   requires [len_%s] t == rtype("%s") ==> len(%s) >= len(%s) && len(%s) >= len(%s)' % (T, T, av, dv, bv, dv))
    for T in types:
        av, bv, dv = V("a", T), V("b", T), V(dest, T)
        f = binop(op, T)
        if op == "Div" and T in INTS:
            continue  # the zero-divisor rule of the integer Div kernels is the subject of known findings; no value clause here
        if incr:
            w('//@   ensures [vv_%s] err == nil && t == rtype("%s") && len(%s) != 1 && len(%s) != 1 ==> (forall i :: 0 <= i && i < len(%s) ==> %s[i] == op_Add(old(%s[i]), %s(old(%s[i]), old(%s[i]))))' % (T, T, av, bv, av, dv, dv, f, av, bv))
        else:
            w('//@   ensures [vv_%s] err == nil && t == rtype("%s") ==> (forall i :: 0 <= i && i < len(%s) ==> %s[i] == %s(old(%s[i]), old(%s[i])))' % (T, T, dv, dv, f, av, bv))
    for T in types:
        av, bv = V("a", T), V("b", T)
        if incr:
            w('//@   ensures [operands_%s] t == rtype("%s") && !(len(%s) == 1 && len(%s) == 1) ==> unchanged(%s) && unchanged(%s)' % (T, T, av, bv, av, bv))
            w('//@   ensures [operands_single_%s] t == rtype("%s") && len(%s) == 1 && len(%s) == 1 ==> unchanged(%s) && unchanged(%s)' % (T, T, av, bv, av, bv))
        else:
            w('//@   ensures [operands_%s] t == rtype("%s") ==> unchanged(%s) && unchanged(%s)' % (T, T, av, bv))
    unsupported(types)
    if incr:
        # operand a is in the frame only because the single-element path computes a op b in place in a
        # (see the operands_single clauses, which do not hold: known finding)
        # (the single-element path finishes with E.Add(t, incr, a), whose frame spans all of Add's element types)
        for T in ARITH_T["Add"]:
            if T not in types:
                for h in (dest, "a"):
                    w('//@   let %s = tview("%s", %s)' % (V(h, T), T, h))
        assigns([dest, "a"], ARITH_T["Add"])
    else:
        assigns([dest], types)
    w("")

for op, types in ARITH_T.items():
    bin_dest(op + "Incr", op, types, "incr", True)
    bin_dest(op + "Recv", op, types, "recv", False)

# ---------------- binary arithmetic, iterator + increment destination ----------------
def bin_iterincr(fn, op, types):
    header(fn, "C06 C07 C17")
    lets(["a", "b", "incr"], types)
    alias_req("a", "b")
    w("//@   requires [dest_storage] incr.Raw.arr != a.Raw.arr && incr.Raw.arr != b.Raw.arr")
    for T in types:
        av, bv, dv = V("a", T), V("b", T), V("incr", T)
        iitc = "!(len(%s) == 1 && len(%s) == 1 && len(%s) == 1)" % (av, bv, dv)
        w('//@   requires [pos_%s] t == rtype("%s") ==> (len(%s) != 1 ==> gh("it_pos", ait) == 0) && (len(%s) != 1 ==> gh("it_pos", bit) == 0) && (%s ==> gh("it_pos", iit) == 0) && (len(%s) != 1 && len(%s) != 1 ==> ait.val != bit.val) && (len(%s) != 1 && %s ==> ait.val != iit.val) && (len(%s) != 1 && %s ==> bit.val != iit.val)'
          % (T, T, av, bv, iitc, av, bv, av, iitc, bv, iitc))
        w('//@   requires [range_%s] t == rtype("%s") ==> (len(%s) != 1 ==> (forall p :: 0 <= p && p < it_len(ait) ==> 0 <= it_seq(ait, p) && it_seq(ait, p) < len(%s))) && (len(%s) != 1 ==> (forall p :: 0 <= p && p < it_len(bit) ==> 0 <= it_seq(bit, p) && it_seq(bit, p) < len(%s))) && (%s ==> (forall p :: 0 <= p && p < it_len(iit) ==> 0 <= it_seq(iit, p) && it_seq(iit, p) < len(%s)))'
          % (T, T, av, av, bv, bv, iitc, dv))
        # a vector destination with two single-element operands is handled by E.AddIter(incr, a): nothing else to require
    for T in types:
        av, bv = V("a", T), V("b", T)
        w('//@   ensures [operands_%s] t == rtype("%s") && !(len(%s) == 1 && len(%s) == 1) ==> unchanged(%s) && unchanged(%s)' % (T, T, av, bv, av, bv))
    unsupported(types)
    for T in ARITH_T["Add"]:
        if T not in types:
            for h in ("incr", "a"):
                w('//@   let %s = tview("%s", %s)' % (V(h, T), T, h))
    assigns(["incr", "a"], ARITH_T["Add"], ', gh("it_pos", ait), gh("it_pos", bit), gh("it_pos", iit)')
    w("")

for op, types in ARITH_T.items():
    bin_iterincr(op + "IterIncr", op, types)

hdr = """//go:build verif

package execution

// Contracts for the reflect.Type dispatch layer (eng_*.go): one clause per arm. Comment-only;
// compiled only with -tags verif. Generated by /verif/contracts/gen_dispatch.py.

"""
import os
open(os.environ.get("REPO", "/repo") + "/internal/execution/verif_contracts_dispatch.go", "w").write(hdr + "\n".join(out) + "\n")
print("wrote", len(out), "lines")
