#!/usr/bin/env python3
"""Generates <repo>/verif_contracts_eng.go: contracts for the generated engine methods StdEng.{Add,Sub,Mul,Div,Pow,Mod}
(C07: which tensor each option mode writes and returns, and that nothing else changes)."""
import os
out = []
def w(s=""): out.extend(s.split("\n"))
INTS = ["int","int8","int16","int32","int64","uint","uint8","uint16","uint32","uint64"]
FLOATS = ["float32","float64"]
CPLX = ["complex64","complex128"]
NUM = INTS + FLOATS + CPLX
ALL = NUM + ["string"]
A = 'asptr("tensor.Dense", a)'
B = 'asptr("tensor.Dense", b)'
R = 'asptr("tensor.Dense", opt_reuse(opts.arr))'
def V(h, T): return "%sv_%s" % (h, T)
w('''// C07 / C06: the generated engine methods StdEng.{Add,Sub,Mul,Div,Pow,Mod}: which tensor each option mode writes and returns.
// Option values are closures over the caller's tensors; what they select is named by uninterpreted functions of the
// option list (opt_reuse = reference of the reuse/increment tensor or 0, opt_incr, opt_safe), and handleFuncOpts is
// trusted to decode exactly that.

//@ ufun opt_reuse(o) int
//@ ufun opt_incr(o) bool
//@ ufun opt_safe(o) bool
//@ ufun opt_same(o) bool

//@ func tensor.binaryCheck
//@   trusted
//@   ensures [same_kind] err == nil ==> asptr("tensor.Dense", a).t == asptr("tensor.Dense", b).t
//@   assigns nothing

//@ func tensor.handleFuncOpts
//@   trusted
//@   ensures [modes] err == nil ==> (toReuse <==> !isnil(reuse)) && (incr ==> toReuse) && (toReuse ==> typeis(reuse, "*tensor.Dense"))
//@   ensures [from_opts] err == nil ==> reuse.val == opt_reuse(opts.arr) && (isnil(reuse) <==> opt_reuse(opts.arr) == 0) && incr == opt_incr(opts.arr) && safe == opt_safe(opts.arr)
//@   ensures [reuse_fits] err == nil && toReuse ==> len(asptr("tensor.Dense", reuse).Raw) / rsize(asptr("tensor.Dense", reuse).t) == prodInts(expShape, len(expShape)) && ((strict || same) ==> asptr("tensor.Dense", reuse).t == expType)
//@   ensures [same_opt] err == nil ==> same == opt_same(opts.arr)
//@   assigns asptr("tensor.Dense", opt_reuse(opts.arr)).AP

//@ func tensor.Iterator.Reset
//@   trusted
//@   params it
//@   ensures [rewound] gh("it_pos", it) == 0
//@   assigns gh("it_pos", it)
''')
ARITH_T = {"Add": NUM + ["string"], "Sub": NUM, "Mul": NUM, "Div": NUM, "Mod": INTS + FLOATS, "Pow": FLOATS + CPLX}
for OP, TYPES in ARITH_T.items():
    w("//@ schema eng_arith_%s match tensor.StdEng.{Op}" % OP.lower())
    w("//@   where Op in %s" % OP)
    w("//@   props C07 C06")
    w("//@   config devirt tensor.Tensor=*tensor.Dense,tensor.DenseTensor=*tensor.Dense")
    for T in ALL:
        w('//@   let %s = tview("%s", %s)' % (V("a", T), T, A))
        w('//@   let %s = tview("%s", %s)' % (V("b", T), T, B))
        w('//@   let %s = tview("%s", %s)' % (V("r", T), T, R))
    w('//@   requires [dyn] typeis(a, "*tensor.Dense") && typeis(b, "*tensor.Dense") && a.val != 0 && b.val != 0')
    w('//@   requires [engines] !isnil(%s.e) && !isnil(%s.e)' % (A, B))
    w('//@   requires [wf_a] len(%s.old.strides) <= cap(%s.old.shape) && len(%s.Raw) / rsize(%s.t) == prodInts(%s.shape, len(%s.shape))' % (A, A, A, A, A, A))
    w('//@   requires [dims_a] forall i :: 0 <= i && i < len(%s.shape) ==> %s.shape[i] >= 0' % (A, A))
    w('//@   requires [wf_b] len(%s.old.strides) <= cap(%s.old.shape)' % (B, B))
    w('//@   requires [dims_b] forall i :: 0 <= i && i < len(%s.shape) ==> %s.shape[i] >= 0' % (B, B))
    w('//@   requires [same_len] len(%s.Raw) == len(%s.Raw)' % (A, B))
    w('//@   requires [storage] %s == %s || %s.Raw.arr != %s.Raw.arr' % (A, B, A, B))
    w('//@   requires [reuse_distinct] opt_reuse(opts.arr) != 0 ==> %s != %s && %s != %s && %s.Raw.arr != %s.Raw.arr && %s.Raw.arr != %s.Raw.arr' % (R, A, R, B, R, A, R, B))
    w('//@   ensures [unsafe_returns_a] err == nil && opt_reuse(opts.arr) == 0 && !opt_safe(opts.arr) ==> retVal == a')
    w('//@   ensures [reuse_returned] err == nil && opt_reuse(opts.arr) != 0 ==> retVal.val == opt_reuse(opts.arr)')
    w('//@   ensures [safe_fresh] err == nil && opt_reuse(opts.arr) == 0 && opt_safe(opts.arr) ==> fresh(asptr("tensor.Dense", retVal)) && fresh(asptr("tensor.Dense", retVal).Raw)')
    # one clause over all element types of the operation (one query per path instead of one per type)
    w('//@   ensures [b_kept] %s != %s ==> ' % (A, B) + " && ".join('(%s.t.Type == rtype("%s") ==> unchanged(%s))' % (A, T, V("b", T)) for T in TYPES))
    # the single-element increment path of the dispatch layer overwrites operand a (known finding on E.*Incr): excluded here
    w('//@   ensures [a_kept] (opt_reuse(opts.arr) != 0 || opt_safe(opts.arr)) ==> ' + " && ".join('(%s.t.Type == rtype("%s") && !(opt_incr(opts.arr) && len(%s) == 1) ==> unchanged(%s))' % (A, T, V("a", T), V("a", T)) for T in TYPES))
    # operand b is in the frame because the dispatch methods declare it (they write b when a is a single element and b is
    # not, which same_len excludes here); that b keeps its content is the b_kept clauses
    w("//@   assigns " + ", ".join("whole(%s), whole(%s), whole(%s)" % (V("a", T), V("b", T), V("r", T)) for T in ALL) + ", %s.AP, gh(\"rawcopy\", %s)" % (R, R))
    w("")

# ---------------- unary methods ----------------
KINDS18 = ["bool","int","int8","int16","int32","int64","uint","uint8","uint16","uint32","uint64","uintptr","float32","float64","complex64","complex128","string","unsafe.Pointer"]
def VV(h, T): return "%sv_%s" % (h, T.replace(".", "_"))
w("""//@ func tensor.unaryCheck
//@   trusted
//@   assigns nothing

// byte-level copy of one storage into another: stated over the typed views (trusted, see assumption on typed views)
//@ func storage.Copy
//@   trusted
//@   params t dst src""")
for T in KINDS18:
    w('//@   let %s = tview("%s", dst)' % (VV("d", T), T))
    w('//@   let %s = tview("%s", src)' % (VV("s", T), T))
for T in KINDS18:
    w('//@   ensures [copied_%s] t == rtype("%s") ==> (forall i :: 0 <= i && i < len(%s) && i < len(%s) ==> %s[i] == old(%s[i]))' % (T.replace(".", "_"), T, VV("d", T), VV("s", T), VV("d", T), VV("s", T)))
w('//@   ensures [raw] gh("rawcopy", dst) == 1')
w("//@   assigns " + ", ".join("whole(%s)" % VV("d", T) for T in KINDS18) + ', gh("rawcopy", dst)')
w("""
//@ func tensor.prepDataUnary
//@   props C07 C12 C16
//@   config devirt tensor.Tensor=*tensor.Dense
//@   requires [dyn] typeis(a, "*tensor.Dense") && (isnil(reuse) || typeis(reuse, "*tensor.Dense"))
//@   ensures [flat_layout] err == nil && !useIter ==> flatOK(asptr("tensor.Dense", a)) && (!isnil(reuse) ==> flatOK(asptr("tensor.Dense", reuse)))
//@   ensures [iterators] err == nil && useIter ==> !isnil(ait) && (!isnil(reuse) ==> !isnil(rit))
//@   ensures [iter_a] err == nil && useIter ==> gh("it_pos", ait) == 0 && fresh(asptr("tensor.FlatIterator", ait)) && (forall p :: 0 <= p && p < it_len(ait) ==> 0 <= it_seq(ait, p) && it_seq(ait, p) < len(asptr("tensor.Dense", a).Raw) / rsize(asptr("tensor.Dense", a).t))
//@   ensures [iter_reuse] err == nil && useIter && !isnil(reuse) ==> gh("it_pos", rit) == 0 && fresh(asptr("tensor.FlatIterator", rit)) && ait.val != rit.val && (forall p :: 0 <= p && p < it_len(rit) ==> 0 <= it_seq(rit, p) && it_seq(rit, p) < len(asptr("tensor.Dense", reuse).Raw) / rsize(asptr("tensor.Dense", reuse).t))
//@   ensures [ok] err == nil
//@   binds dataA = asptr("tensor.Dense", a).Header
//@   binds dataReuse = asptr("tensor.Dense", reuse).Header when !isnil(reuse)
//@   assigns nothing
""")
UN_T = {"Neg": NUM, "Inv": NUM, "Square": NUM, "Cube": NUM, "Abs": ["int","int8","int16","int32","int64"] + FLOATS, "Sign": ["int","int8","int16","int32","int64"] + FLOATS,
        "Sqrt": FLOATS + CPLX, "Cbrt": FLOATS, "InvSqrt": FLOATS, "Exp": FLOATS + CPLX, "Log": FLOATS + CPLX, "Log2": FLOATS, "Log10": FLOATS + CPLX, "Tanh": FLOATS + CPLX}
for OP, TYPES in UN_T.items():
    w("//@ schema eng_unary_%s match tensor.StdEng.{Op}" % OP.lower())
    w("//@   where Op in %s" % OP)
    w("//@   props C07 C12")
    w("//@   config devirt tensor.Tensor=*tensor.Dense,tensor.DenseTensor=*tensor.Dense")
    for T in ALL:
        w('//@   let %s = tview("%s", %s)' % (V("a", T), T, A))
        w('//@   let %s = tview("%s", %s)' % (V("r", T), T, R))
    w('//@   requires [dyn] typeis(a, "*tensor.Dense") && a.val != 0')
    w('//@   requires [engines] !isnil(%s.e)' % A)
    w('//@   requires [wf_a] len(%s.old.strides) <= cap(%s.old.shape) && len(%s.Raw) / rsize(%s.t) == prodInts(%s.shape, len(%s.shape))' % (A, A, A, A, A, A))
    w('//@   requires [dims_a] forall i :: 0 <= i && i < len(%s.shape) ==> %s.shape[i] >= 0' % (A, A))
    w('//@   requires [reuse_distinct] opt_reuse(opts.arr) != 0 ==> %s != %s && %s.Raw.arr != %s.Raw.arr' % (R, A, R, A))
    w('//@   ensures [unsafe_returns_a] err == nil && opt_reuse(opts.arr) == 0 && !opt_safe(opts.arr) ==> retVal == a')
    w('//@   ensures [reuse_returned] err == nil && opt_reuse(opts.arr) != 0 ==> retVal.val == opt_reuse(opts.arr)')
    w('//@   ensures [safe_fresh] err == nil && opt_reuse(opts.arr) == 0 && opt_safe(opts.arr) ==> fresh(asptr("tensor.Dense", retVal)) && fresh(asptr("tensor.Dense", retVal).Raw)')
    w('//@   ensures [a_kept] (opt_reuse(opts.arr) != 0 || opt_safe(opts.arr)) ==> ' + " && ".join('(%s.t.Type == rtype("%s") ==> unchanged(%s))' % (A, T, V("a", T)) for T in TYPES))
    w("//@   assigns " + ", ".join("whole(%s), whole(%s)" % (V("a", T), V("r", T)) for T in ALL) + ", %s.AP, gh(\"rawcopy\", %s)" % (R, R))
    w("")

# ---------------- comparison methods ----------------
ORD = INTS + FLOATS + ["string"]
EQT = ["bool"] + INTS + ["uintptr"] + FLOATS + CPLX + ["string"]
w("""// a variadic list of tensors gives the iterator of the first one (trusted, as Dense.Iterator)
//@ func tensor.IteratorFromDense
//@   trusted
//@   ensures [some] !isnil(result) && fresh(asptr("tensor.FlatIterator", result))
//@   ensures [start] gh("it_pos", result) == 0
//@   ensures [in_range] len(tts) == 1 ==> (forall p :: 0 <= p && p < it_len(result) ==> 0 <= it_seq(result, p) && it_seq(result, p) < len(asptr("tensor.Dense", tts[0]).Raw) / rsize(asptr("tensor.Dense", tts[0]).t))
//@   assigns nothing
""")
import sys
CMP = True
for ops, types, name in (((["Gt", "Gte", "Lt", "Lte"], ORD, "eng_cmp_ord"), (["ElEq", "ElNe"], EQT, "eng_cmp_eq")) if CMP else ()):
    w("//@ schema %s match tensor.StdEng.{Op}" % name)
    w("//@   where Op in " + " ".join(ops))
    w("//@   props C07 C11")
    w("//@   config devirt tensor.Tensor=*tensor.Dense,tensor.DenseTensor=*tensor.Dense")
    for T in types:
        w('//@   let %s = tview("%s", %s)' % (V("a", T), T, A))
        w('//@   let %s = tview("%s", %s)' % (V("b", T), T, B))
    w('//@   requires [dyn] typeis(a, "*tensor.Dense") && typeis(b, "*tensor.Dense") && a.val != 0 && b.val != 0')
    w('//@   requires [wf_a] len(%s.Raw) / rsize(%s.t) == prodInts(%s.shape, len(%s.shape))' % (A, A, A, A))
    w('//@   requires [dims_a] forall i :: 0 <= i && i < len(%s.shape) ==> %s.shape[i] >= 0' % (A, A))
    w('//@   requires [same_len] len(%s.Raw) == len(%s.Raw)' % (A, B))
    w('//@   requires [storage] %s == %s || %s.Raw.arr != %s.Raw.arr' % (A, B, A, B))
    w('//@   requires [reuse_distinct] opt_reuse(opts.arr) != 0 ==> %s != %s && %s != %s && %s.Raw.arr != %s.Raw.arr && %s.Raw.arr != %s.Raw.arr' % (R, A, R, B, R, A, R, B))
    w('//@   ensures [unsafe_returns_a] err == nil && opt_reuse(opts.arr) == 0 && !opt_safe(opts.arr) ==> retVal == a')
    w('//@   ensures [reuse_returned] err == nil && opt_reuse(opts.arr) != 0 ==> retVal.val == opt_reuse(opts.arr)')
    w('//@   ensures [safe_fresh] err == nil && opt_reuse(opts.arr) == 0 && opt_safe(opts.arr) ==> fresh(asptr("tensor.Dense", retVal)) && fresh(asptr("tensor.Dense", retVal).Raw)')
    w('//@   ensures [bool_result] err == nil && opt_reuse(opts.arr) == 0 && opt_safe(opts.arr) && !opt_same(opts.arr) ==> asptr("tensor.Dense", retVal).t.Type == rtype("bool")')
    w('//@   ensures [same_result] err == nil && opt_reuse(opts.arr) == 0 && opt_safe(opts.arr) && opt_same(opts.arr) ==> asptr("tensor.Dense", retVal).t == %s.t' % A)
    for T in types:
        w('//@   ensures [b_kept_%s] %s.t.Type == rtype("%s") && %s != %s ==> unchanged(%s)' % (T, A, T, A, B, V("b", T)))
    for T in types:
        w('//@   ensures [a_kept_%s] %s.t.Type == rtype("%s") && (opt_reuse(opts.arr) != 0 || opt_safe(opts.arr)) ==> unchanged(%s)' % (T, A, T, V("a", T)))
    w("//@   config frame any")
    w("")

# ---------------- tensor-scalar arithmetic methods ----------------
T_ = 'asptr("tensor.Dense", t)'
w("""//@ func tensor.scalarDtypeCheck
//@   trusted""")
for T in ALL:
    w('//@   ensures [%s] result == nil && asptr("tensor.Dense", a).t.Type == rtype("%s") ==> hastype(b, "%s")' % (T, T, T))
w("//@   assigns nothing")
w("")
w("""// a scalar operand is boxed into a fresh one-element storage header (pooled; trusted)
//@ func tensor.scalarToHeader
//@   trusted
//@   ensures [fresh] fresh(hdr) && fresh(hdr.Raw)""")
for T in ALL:
    w('//@   ensures [%s] hastype(a, "%s") ==> len(tview("%s", hdr)) == 1 && tview("%s", hdr)[0] == unbox("%s", a)' % (T, T, T, T, T))
w("//@   assigns nothing")
w("""
//@ func tensor.freeScalar
//@   trusted
//@   assigns whole(bs)

//@ func tensor.returnHeader
//@   trusted
//@   assigns hdr.Raw

//@ func storage.Fill
//@   trusted
//@   params t dst src""")
for T in KINDS18:
    w('//@   let %s = tview("%s", dst)' % (VV("d", T), T))
w("//@   assigns " + ", ".join("whole(%s)" % VV("d", T) for T in KINDS18))
w("")
for OP, TYPES in ARITH_T.items():
    w("//@ schema eng_arith_scalar_%s match tensor.StdEng.{Op}Scalar" % OP.lower())
    w("//@   where Op in %s" % OP)
    w("//@   props C07 C06")
    w("//@   config devirt tensor.Tensor=*tensor.Dense,tensor.DenseTensor=*tensor.Dense")
    for T in ALL:
        w('//@   let %s = tview("%s", %s)' % (V("t", T), T, T_))
    w('//@   requires [dyn] typeis(t, "*tensor.Dense") && t.val != 0')
    w('//@   requires [engines] !isnil(%s.e)' % T_)
    w('//@   requires [wf_t] len(%s.old.strides) <= cap(%s.old.shape) && len(%s.Raw) / rsize(%s.t) == prodInts(%s.shape, len(%s.shape))' % ((T_,)*6))
    w('//@   requires [dims_t] forall i :: 0 <= i && i < len(%s.shape) ==> %s.shape[i] >= 0' % (T_, T_))
    # (a consequence of wf_t that needs induction over the shape: a product of non-negative extents is 1 only if all are 1)
    w('//@   requires [single_element_shape] len(%s.Raw) / rsize(%s.t) == 1 ==> allOnes(%s.shape)' % (T_, T_, T_))
    w('//@   requires [reuse_distinct] opt_reuse(opts.arr) != 0 ==> %s != %s && %s.Raw.arr != %s.Raw.arr' % (R, T_, R, T_))
    w('//@   ensures [unsafe_returns_t] err == nil && opt_reuse(opts.arr) == 0 && !opt_safe(opts.arr) ==> retVal == t')
    w('//@   ensures [reuse_returned] err == nil && opt_reuse(opts.arr) != 0 ==> retVal.val == opt_reuse(opts.arr)')
    w('//@   ensures [safe_fresh] err == nil && opt_reuse(opts.arr) == 0 && opt_safe(opts.arr) ==> fresh(asptr("tensor.Dense", retVal)) && fresh(asptr("tensor.Dense", retVal).Raw)')
    w('//@   ensures [t_kept] (opt_reuse(opts.arr) != 0 || opt_safe(opts.arr)) ==> ' + " && ".join('(%s.t.Type == rtype("%s") && !(opt_incr(opts.arr) && len(%s) == 1) ==> unchanged(%s))' % (T_, T, V("t", T), V("t", T)) for T in TYPES))
    w("//@   config frame any")
    w("")

# ---------------- float32/float64-specialised engines: Add (C20: same result and same effect as the default engine) ----------------
for W, T in (("64", "float64"), ("32", "float32")):
    w("""//@ func tensor.handleFuncOptsF%s
//@   trusted
//@   ensures [modes] err == nil ==> (toReuse <==> !isnil(reuse)) && (incr ==> toReuse) && (toReuse ==> typeis(reuse, "*tensor.Dense"))
//@   ensures [from_opts] err == nil ==> reuse.val == opt_reuse(opts.arr) && (isnil(reuse) <==> opt_reuse(opts.arr) == 0) && incr == opt_incr(opts.arr) && safe == opt_safe(opts.arr)
//@   assigns asptr("tensor.Dense", opt_reuse(opts.arr)).AP
""" % W)
    av, bv, rv = 'tview("%s", %s)' % (T, A), 'tview("%s", %s)' % (T, B), 'tview("%s", %s)' % (T, R)
    w("//@ func tensor.Float%sEngine.Add" % W)
    w("//@   props C20 C07")
    w("//@   config devirt tensor.Tensor=*tensor.Dense,tensor.DenseTensor=*tensor.Dense,tensor.headerer=*tensor.Dense")
    w('//@   requires [dyn] typeis(a, "*tensor.Dense") && typeis(b, "*tensor.Dense") && a.val != 0 && b.val != 0')
    w('//@   requires [engines] !isnil(%s.e) && !isnil(%s.e)' % (A, B))
    w('//@   requires [wf_a] len(%s.old.strides) <= cap(%s.old.shape) && len(%s.Raw) / rsize(%s.t) == prodInts(%s.shape, len(%s.shape))' % (A, A, A, A, A, A))
    w('//@   requires [dims_a] forall i :: 0 <= i && i < len(%s.shape) ==> %s.shape[i] >= 0' % (A, A))
    w('//@   requires [wf_b] len(%s.old.strides) <= cap(%s.old.shape)' % (B, B))
    w('//@   requires [dims_b] forall i :: 0 <= i && i < len(%s.shape) ==> %s.shape[i] >= 0' % (B, B))
    # (with different element types and no reuse tensor the error message itself dereferences the nil reuse: observed, excluded)
    w('//@   requires [same_dtype] %s.t == %s.t' % (A, B))
    w('//@   requires [same_len] len(%s.Raw) == len(%s.Raw)' % (A, B))
    w('//@   requires [storage] %s == %s || %s.Raw.arr != %s.Raw.arr' % (A, B, A, B))
    w('//@   requires [reuse_distinct] opt_reuse(opts.arr) != 0 ==> %s != %s && %s != %s && %s.Raw.arr != %s.Raw.arr && %s.Raw.arr != %s.Raw.arr && len(%s.Raw) == len(%s.Raw) && %s.t == %s.t' % (R, A, R, B, R, A, R, B, R, A, R, A))
    w('//@   ensures [unsafe_returns_a] err == nil && opt_reuse(opts.arr) == 0 && !opt_safe(opts.arr) ==> retVal == a')
    w('//@   ensures [reuse_returned] err == nil && opt_reuse(opts.arr) != 0 ==> retVal.val == opt_reuse(opts.arr)')
    w('//@   ensures [safe_fresh] err == nil && opt_reuse(opts.arr) == 0 && opt_safe(opts.arr) ==> fresh(asptr("tensor.Dense", retVal)) && fresh(asptr("tensor.Dense", retVal).Raw)')
    flat = 'old(flatOK(%s) && flatOK(%s))' % (A, B)
    w('//@   ensures [reuse_value] err == nil && %s.t.Type == rtype("%s") && %s && opt_reuse(opts.arr) != 0 && !opt_incr(opts.arr) ==> (forall i :: 0 <= i && i < len(%s) ==> %s[i] == op_Add(old(%s[i]), old(%s[i])))' % (A, T, flat, av, rv, av, bv))
    w('//@   ensures [incr_value] err == nil && %s.t.Type == rtype("%s") && %s && opt_reuse(opts.arr) != 0 && opt_incr(opts.arr) ==> (forall i :: 0 <= i && i < len(%s) ==> %s[i] == op_Add(old(%s[i]), op_Add(old(%s[i]), old(%s[i]))))' % (A, T, flat, av, rv, rv, av, bv))
    w('//@   ensures [unsafe_value] err == nil && %s.t.Type == rtype("%s") && %s && %s != %s && opt_reuse(opts.arr) == 0 && !opt_safe(opts.arr) ==> (forall i :: 0 <= i && i < len(%s) ==> %s[i] == op_Add(old(%s[i]), old(%s[i])))' % (A, T, flat, A, B, av, av, av, bv))
    w('//@   ensures [b_kept] %s.t.Type == rtype("%s") && %s && %s != %s ==> unchanged(%s)' % (A, T, flat, A, B, bv))
    w('//@   ensures [a_kept] %s.t.Type == rtype("%s") && %s && (opt_reuse(opts.arr) != 0 || opt_safe(opts.arr)) ==> unchanged(%s)' % (A, T, flat, av))
    w("//@   config frame any")
    w("")

hdr = """//go:build verif

package tensor

// Contracts for the generated engine methods. Comment-only. Generated by /verif/contracts/gen_engine.py.

"""
open(os.environ.get("REPO", "/repo") + "/verif_contracts_eng.go", "w").write(hdr + "\n".join(out) + "\n")
print("wrote", len(out))
