#!/usr/bin/env python3
"""Generates <repo>/verif_contracts_eng.go: contracts for the generated engine methods StdEng.{Add,Sub,Mul,Div,Pow,Mod}
(C07: which tensor each option mode writes and returns, and that nothing else changes)."""
import os
out = []
def w(s=""): out.extend(s.split("\n"))
INTS = ["int","int8","int16","int32","int64","uint","uint8","uint16","uint32","uint64"]
FLOATS = ["float32","float64"]
CPLX = ["complex64","complex128"]
NUM = INTS + FLOATS + CPLX
ALL = NUM + ["string"]
A = 'asptr("tensor.Dense", a)'
B = 'asptr("tensor.Dense", b)'
R = 'asptr("tensor.Dense", opt_reuse(opts.arr))'
def V(h, T): return "%sv_%s" % (h, T)
w('''// C07 / C06: the generated engine methods StdEng.{Add,Sub,Mul,Div,Pow,Mod}: which tensor each option mode writes and returns.
// Option values are closures over the caller's tensors; what they select is named by uninterpreted functions of the
// option list (opt_reuse = reference of the reuse/increment tensor or 0, opt_incr, opt_safe), and handleFuncOpts is
// trusted to decode exactly that.

//@ ufun opt_reuse(o) int
//@ ufun opt_incr(o) bool
//@ ufun opt_safe(o) bool
//@ ufun opt_same(o) bool

//@ func tensor.binaryCheck
//@   trusted
//@   ensures [same_kind] err == nil ==> asptr("tensor.Dense", a).t == asptr("tensor.Dense", b).t
//@   assigns nothing

//@ func tensor.handleFuncOpts
//@   trusted
//@   ensures [modes] err == nil ==> (toReuse <==> !isnil(reuse)) && (incr ==> toReuse) && (toReuse ==> typeis(reuse, "*tensor.Dense"))
//@   ensures [from_opts] err == nil ==> reuse.val == opt_reuse(opts.arr) && (isnil(reuse) <==> opt_reuse(opts.arr) == 0) && incr == opt_incr(opts.arr) && safe == opt_safe(opts.arr)
//@   ensures [reuse_fits] err == nil && toReuse ==> len(asptr("tensor.Dense", reuse).Raw) / rsize(asptr("tensor.Dense", reuse).t) == prodInts(expShape, len(expShape)) && ((strict || same) ==> asptr("tensor.Dense", reuse).t == expType)
//@   ensures [same_opt] err == nil ==> same == opt_same(opts.arr)
//@   ensures [reuse_layout] err == nil && toReuse ==> (old(flatOK(asptr("tensor.Dense", opt_reuse(opts.arr)))) ==> flatOK(asptr("tensor.Dense", reuse))) && (incr ==> (asptr("tensor.Dense", reuse).AP.o & ColMajor) == old(asptr("tensor.Dense", opt_reuse(opts.arr)).AP.o & ColMajor)) && (!incr ==> (asptr("tensor.Dense", reuse).AP.o & ColMajor) == (o & ColMajor))
//@   assigns asptr("tensor.Dense", opt_reuse(opts.arr)).AP

//@ func tensor.Iterator.Reset
//@   trusted
//@   params it
//@   ensures [rewound] gh("it_pos", it) == 0
//@   assigns gh("it_pos", it)
''')
ARITH_T = {"Add": NUM + ["string"], "Sub": NUM, "Mul": NUM, "Div": NUM, "Mod": INTS + FLOATS, "Pow": FLOATS + CPLX}
for OP, TYPES in ARITH_T.items():
    w("//@ schema eng_arith_%s match tensor.StdEng.{Op}" % OP.lower())
    w("//@   where Op in %s" % OP)
    w("//@   props C07 C06")
    w("//@   config devirt tensor.Tensor=*tensor.Dense,tensor.DenseTensor=*tensor.Dense")
    for T in ALL:
        w('//@   let %s = tview("%s", %s)' % (V("a", T), T, A))
        w('//@   let %s = tview("%s", %s)' % (V("b", T), T, B))
        w('//@   let %s = tview("%s", %s)' % (V("r", T), T, R))
    w('//@   requires [dyn] typeis(a, "*tensor.Dense") && typeis(b, "*tensor.Dense") && a.val != 0 && b.val != 0')
    w('//@   requires [engines] !isnil(%s.e) && !isnil(%s.e)' % (A, B))
    w('//@   requires [wf_a] len(%s.old.strides) <= cap(%s.old.shape) && len(%s.Raw) / rsize(%s.t) == prodInts(%s.shape, len(%s.shape))' % (A, A, A, A, A, A))
    w('//@   requires [dims_a] forall i :: 0 <= i && i < len(%s.shape) ==> %s.shape[i] >= 0' % (A, A))
    w('//@   requires [wf_b] len(%s.old.strides) <= cap(%s.old.shape)' % (B, B))
    w('//@   requires [dims_b] forall i :: 0 <= i && i < len(%s.shape) ==> %s.shape[i] >= 0' % (B, B))
    w('//@   requires [same_len] len(%s.Raw) == len(%s.Raw)' % (A, B))
    w('//@   requires [storage] %s == %s || %s.Raw.arr != %s.Raw.arr' % (A, B, A, B))
    w('//@   requires [reuse_distinct] opt_reuse(opts.arr) != 0 ==> %s != %s && %s != %s && %s.Raw.arr != %s.Raw.arr && %s.Raw.arr != %s.Raw.arr' % (R, A, R, B, R, A, R, B))
    w('//@   ensures [unsafe_returns_a] err == nil && opt_reuse(opts.arr) == 0 && !opt_safe(opts.arr) ==> retVal == a')
    w('//@   ensures [reuse_returned] err == nil && opt_reuse(opts.arr) != 0 ==> retVal.val == opt_reuse(opts.arr)')
    w('//@   ensures [safe_fresh] err == nil && opt_reuse(opts.arr) == 0 && opt_safe(opts.arr) ==> fresh(asptr("tensor.Dense", retVal)) && fresh(asptr("tensor.Dense", retVal).Raw)')
    # one clause over all element types of the operation (one query per path instead of one per type)
    w('//@   ensures [b_kept] %s != %s ==> ' % (A, B) + " && ".join('(%s.t.Type == rtype("%s") ==> unchanged(%s))' % (A, T, V("b", T)) for T in TYPES))
    # the single-element increment path of the dispatch layer overwrites operand a (known finding on E.*Incr): excluded here
    w('//@   ensures [a_kept] (opt_reuse(opts.arr) != 0 || opt_safe(opts.arr)) ==> ' + " && ".join('(%s.t.Type == rtype("%s") && !(opt_incr(opts.arr) && len(%s) == 1) ==> unchanged(%s))' % (A, T, V("a", T), V("a", T)) for T in TYPES))
    # delivered values for flat operands (the iterator paths only carry the kernels' summaries)
    def binop_(op, T):
        if op == "Mod" and T in FLOATS: return "op_Mod_" + T
        if op == "Pow": return "op_Pow_" + T
        return "op_" + op
    flat2 = 'old(flatOK(%s) && flatOK(%s) && sameOrder(%s, %s))' % (A, B, A, B)
    flat3 = 'old(flatOK(%s) && flatOK(%s) && flatOK(%s) && sameOrder(%s, %s) && sameOrder(%s, %s))' % (A, B, R, A, B, A, R)
    for T in TYPES:
        if OP == "Div" and T in INTS:
            continue  # integer division by zero: the kernels' own rule (known findings) applies
        f = binop_(OP, T)
        av, bv, rv = V("a", T), V("b", T), V("r", T)
        w('//@   ensures [unsafe_value_%s] err == nil && %s && %s.t.Type == rtype("%s") && %s != %s && opt_reuse(opts.arr) == 0 && !opt_safe(opts.arr) ==> (forall i :: 0 <= i && i < len(%s) ==> %s[i] == %s(old(%s[i]), old(%s[i])))' % (T, flat2, A, T, A, B, av, av, f, av, bv))
        w('//@   ensures [reuse_value_%s] err == nil && %s && %s.t.Type == rtype("%s") && opt_reuse(opts.arr) != 0 && !opt_incr(opts.arr) ==> (forall i :: 0 <= i && i < len(%s) ==> %s[i] == %s(old(%s[i]), old(%s[i])))' % (T, flat3, A, T, av, rv, f, av, bv))
        w('//@   ensures [incr_value_%s] err == nil && %s && %s.t.Type == rtype("%s") && opt_reuse(opts.arr) != 0 && opt_incr(opts.arr) && len(%s) != 1 ==> (forall i :: 0 <= i && i < len(%s) ==> %s[i] == op_Add(old(%s[i]), %s(old(%s[i]), old(%s[i]))))' % (T, flat3, A, T, av, av, rv, rv, f, av, bv))
    # operand b is in the frame because the dispatch methods declare it (they write b when a is a single element and b is
    # not, which same_len excludes here); that b keeps its content is the b_kept clauses
    w("//@   assigns " + ", ".join("whole(%s), whole(%s), whole(%s)" % (V("a", T), V("b", T), V("r", T)) for T in ALL) + ", %s.AP, gh(\"rawcopy\", %s)" % (R, R))
    w("")

# ---------------- unary methods ----------------
KINDS18 = ["bool","int","int8","int16","int32","int64","uint","uint8","uint16","uint32","uint64","uintptr","float32","float64","complex64","complex128","string","unsafe.Pointer"]
def VV(h, T): return "%sv_%s" % (h, T.replace(".", "_"))
w("""//@ func tensor.unaryCheck
//@   trusted
//@   assigns nothing

// byte-level copy of one storage into another: stated over the typed views (trusted, see assumption on typed views)
//@ func storage.Copy
//@   trusted
//@   params t dst src""")
for T in KINDS18:
    w('//@   let %s = tview("%s", dst)' % (VV("d", T), T))
    w('//@   let %s = tview("%s", src)' % (VV("s", T), T))
for T in KINDS18:
    w('//@   ensures [copied_%s] t == rtype("%s") ==> (forall i :: 0 <= i && i < len(%s) && i < len(%s) ==> %s[i] == old(%s[i]))' % (T.replace(".", "_"), T, VV("d", T), VV("s", T), VV("d", T), VV("s", T)))
w('//@   ensures [raw] gh("rawcopy", dst) == 1')
w("//@   assigns " + ", ".join("whole(%s)" % VV("d", T) for T in KINDS18) + ', gh("rawcopy", dst)')
w("""
//@ func tensor.prepDataUnary
//@   props C07 C12 C16
//@   config devirt tensor.Tensor=*tensor.Dense
//@   requires [dyn] typeis(a, "*tensor.Dense") && (isnil(reuse) || typeis(reuse, "*tensor.Dense"))
//@   ensures [flat_layout] err == nil && !useIter ==> flatOK(asptr("tensor.Dense", a)) && (!isnil(reuse) ==> flatOK(asptr("tensor.Dense", reuse)))
//@   ensures [iterators] err == nil && useIter ==> !isnil(ait) && (!isnil(reuse) ==> !isnil(rit))
//@   ensures [iter_a] err == nil && useIter ==> gh("it_pos", ait) == 0 && fresh(asptr("tensor.FlatIterator", ait)) && (forall p :: 0 <= p && p < it_len(ait) ==> 0 <= it_seq(ait, p) && it_seq(ait, p) < len(asptr("tensor.Dense", a).Raw) / rsize(asptr("tensor.Dense", a).t))
//@   ensures [iter_reuse] err == nil && useIter && !isnil(reuse) ==> gh("it_pos", rit) == 0 && fresh(asptr("tensor.FlatIterator", rit)) && ait.val != rit.val && (forall p :: 0 <= p && p < it_len(rit) ==> 0 <= it_seq(rit, p) && it_seq(rit, p) < len(asptr("tensor.Dense", reuse).Raw) / rsize(asptr("tensor.Dense", reuse).t))
//@   ensures [ok] err == nil
//@   ensures [flat_when_possible] err == nil && useIter ==> !(flatOK(asptr("tensor.Dense", a)) && (isnil(reuse) || flatOK(asptr("tensor.Dense", reuse))))
//@   binds dataA = asptr("tensor.Dense", a).Header
//@   binds dataReuse = asptr("tensor.Dense", reuse).Header when !isnil(reuse)
//@   assigns nothing
""")
UN_T = {"Neg": NUM, "Inv": NUM, "Square": NUM, "Cube": NUM, "Abs": ["int","int8","int16","int32","int64"] + FLOATS, "Sign": ["int","int8","int16","int32","int64"] + FLOATS,
        "Sqrt": FLOATS + CPLX, "Cbrt": FLOATS, "InvSqrt": FLOATS, "Exp": FLOATS + CPLX, "Log": FLOATS + CPLX, "Log2": FLOATS, "Log10": FLOATS + CPLX, "Tanh": FLOATS + CPLX}
for OP, TYPES in UN_T.items():
    w("//@ schema eng_unary_%s match tensor.StdEng.{Op}" % OP.lower())
    w("//@   where Op in %s" % OP)
    w("//@   props C07 C12")
    w("//@   config devirt tensor.Tensor=*tensor.Dense,tensor.DenseTensor=*tensor.Dense")
    for T in ALL:
        w('//@   let %s = tview("%s", %s)' % (V("a", T), T, A))
        w('//@   let %s = tview("%s", %s)' % (V("r", T), T, R))
    w('//@   requires [dyn] typeis(a, "*tensor.Dense") && a.val != 0')
    w('//@   requires [engines] !isnil(%s.e)' % A)
    w('//@   requires [wf_a] len(%s.old.strides) <= cap(%s.old.shape) && len(%s.Raw) / rsize(%s.t) == prodInts(%s.shape, len(%s.shape))' % (A, A, A, A, A, A))
    w('//@   requires [dims_a] forall i :: 0 <= i && i < len(%s.shape) ==> %s.shape[i] >= 0' % (A, A))
    w('//@   requires [reuse_distinct] opt_reuse(opts.arr) != 0 ==> %s != %s && %s.Raw.arr != %s.Raw.arr' % (R, A, R, A))
    w('//@   ensures [unsafe_returns_a] err == nil && opt_reuse(opts.arr) == 0 && !opt_safe(opts.arr) ==> retVal == a')
    w('//@   ensures [reuse_returned] err == nil && opt_reuse(opts.arr) != 0 ==> retVal.val == opt_reuse(opts.arr)')
    w('//@   ensures [safe_fresh] err == nil && opt_reuse(opts.arr) == 0 && opt_safe(opts.arr) ==> fresh(asptr("tensor.Dense", retVal)) && fresh(asptr("tensor.Dense", retVal).Raw)')
    w('//@   ensures [a_kept] (opt_reuse(opts.arr) != 0 || opt_safe(opts.arr)) ==> ' + " && ".join('(%s.t.Type == rtype("%s") ==> unchanged(%s))' % (A, T, V("a", T)) for T in TYPES))
    def unop_(op, T):
        if op in ("Neg", "Square", "Cube"): return "un_" + op
        return "un_%s_%s" % (op, T)
    for T in TYPES:
        g = unop_(OP, T)
        av, rv = V("a", T), V("r", T)
        w('//@   ensures [unsafe_value_%s] err == nil && old(flatOK(%s)) && %s.t.Type == rtype("%s") && opt_reuse(opts.arr) == 0 && !opt_safe(opts.arr) ==> (forall i :: 0 <= i && i < len(%s) ==> %s[i] == %s(old(%s[i])))' % (T, A, A, T, av, av, g, av))
        w('//@   ensures [reuse_value_%s] err == nil && old(flatOK(%s) && flatOK(%s)) && %s.t.Type == rtype("%s") && opt_reuse(opts.arr) != 0 && !opt_incr(opts.arr) ==> (forall i :: 0 <= i && i < len(%s) ==> %s[i] == %s(old(%s[i])))' % (T, A, R, A, T, av, rv, g, av))
    w("//@   assigns " + ", ".join("whole(%s), whole(%s)" % (V("a", T), V("r", T)) for T in ALL) + ", %s.AP, gh(\"rawcopy\", %s)" % (R, R))
    w("")

def one(T):  return {"bool": "true", "string": '"true"'}.get(T, "%s(1)" % T)
def zero(T): return {"bool": "false", "string": '"false"'}.get(T, "%s(0)" % T)
# ---------------- comparison methods ----------------
ORD = INTS + FLOATS + ["string"]
EQT = ["bool"] + INTS + ["uintptr"] + FLOATS + CPLX + ["string"]
# (the trusted contract of IteratorFromDense lives in verif_contracts_maskinspect.go, with the masked case)

import sys
CMP = True
for ops, types, name in ((([o], (ORD if o in ("Gt", "Gte", "Lt", "Lte") else EQT), "eng_cmp_" + o.lower()) for o in ("Gt", "Gte", "Lt", "Lte", "ElEq", "ElNe")) if CMP else ()):
    w("//@ schema %s match tensor.StdEng.{Op}" % name)
    w("//@   where Op in " + " ".join(ops))
    w("//@   props C07 C11")
    w("//@   config devirt tensor.Tensor=*tensor.Dense,tensor.DenseTensor=*tensor.Dense")
    for T in types:
        w('//@   let %s = tview("%s", %s)' % (V("a", T), T, A))
        w('//@   let %s = tview("%s", %s)' % (V("b", T), T, B))
    w('//@   requires [dyn] typeis(a, "*tensor.Dense") && typeis(b, "*tensor.Dense") && a.val != 0 && b.val != 0')
    w('//@   requires [wf_a] len(%s.Raw) / rsize(%s.t) == prodInts(%s.shape, len(%s.shape))' % (A, A, A, A))
    w('//@   requires [dims_a] forall i :: 0 <= i && i < len(%s.shape) ==> %s.shape[i] >= 0' % (A, A))
    w('//@   requires [same_len] len(%s.Raw) == len(%s.Raw)' % (A, B))
    w('//@   requires [storage] %s == %s || %s.Raw.arr != %s.Raw.arr' % (A, B, A, B))
    w('//@   requires [reuse_distinct] opt_reuse(opts.arr) != 0 ==> %s != %s && %s != %s && %s.Raw.arr != %s.Raw.arr && %s.Raw.arr != %s.Raw.arr' % (R, A, R, B, R, A, R, B))
    w('//@   ensures [unsafe_returns_a] err == nil && opt_reuse(opts.arr) == 0 && !opt_safe(opts.arr) ==> retVal == a')
    w('//@   ensures [reuse_returned] err == nil && opt_reuse(opts.arr) != 0 ==> retVal.val == opt_reuse(opts.arr)')
    w('//@   ensures [safe_fresh] err == nil && opt_reuse(opts.arr) == 0 && opt_safe(opts.arr) ==> fresh(asptr("tensor.Dense", retVal)) && fresh(asptr("tensor.Dense", retVal).Raw)')
    w('//@   ensures [bool_result] err == nil && opt_reuse(opts.arr) == 0 && opt_safe(opts.arr) && !opt_same(opts.arr) ==> asptr("tensor.Dense", retVal).t.Type == rtype("bool")')
    w('//@   ensures [same_result] err == nil && opt_reuse(opts.arr) == 0 && opt_safe(opts.arr) && opt_same(opts.arr) ==> asptr("tensor.Dense", retVal).t == %s.t' % A)
    for T in types:
        w('//@   ensures [b_kept_%s] %s.t.Type == rtype("%s") && %s != %s ==> unchanged(%s)' % (T, A, T, A, B, V("b", T)))
    for T in types:
        w('//@   ensures [a_kept_%s] %s.t.Type == rtype("%s") && (opt_reuse(opts.arr) != 0 || opt_safe(opts.arr)) ==> unchanged(%s)' % (T, A, T, V("a", T)))
    CMPFN = {"Gt":"gogt","Gte":"goge","Lt":"golt","Lte":"gole","ElEq":"goeq","ElNe":"gone"}
    def one(T):  return {"bool": "true", "string": '"true"'}.get(T, "%s(1)" % T)
    def zero(T): return {"bool": "false", "string": '"false"'}.get(T, "%s(0)" % T)
    flat2 = 'old(flatOK(%s) && flatOK(%s) && sameOrder(%s, %s))' % (A, B, A, B)
    for OPN in ops:
        f = CMPFN[OPN]
        for T in types:
            av, bv = V("a", T), V("b", T)
            w('//@   ensures [%s_bool_value_%s] err == nil && %s && %s.t.Type == rtype("%s") && opt_reuse(opts.arr) == 0 && opt_safe(opts.arr) && !opt_same(opts.arr) ==> (forall i :: 0 <= i && i < len(%s) ==> tview("bool", asptr("tensor.Dense", retVal))[i] == %s(old(%s[i]), old(%s[i])))' % (OPN, T, flat2, A, T, av, f, av, bv))
            if T != "bool":
                w('//@   ensures [%s_unsafe_value_%s] err == nil && %s && %s.t.Type == rtype("%s") && %s != %s && opt_reuse(opts.arr) == 0 && !opt_safe(opts.arr) ==> (forall i :: 0 <= i && i < len(%s) ==> %s[i] == (%s(old(%s[i]), old(%s[i])) ? %s : %s))' % (OPN, T, flat2, A, T, A, B, av, av, f, av, bv, one(T), zero(T)))
    w("//@   config frame any")
    w("")

# ---------------- tensor-scalar arithmetic methods ----------------
T_ = 'asptr("tensor.Dense", t)'
w("""//@ func tensor.scalarDtypeCheck
//@   trusted""")
for T in KINDS18:
    w('//@   ensures [%s] result == nil && asptr("tensor.Dense", a).t.Type == rtype("%s") ==> hastype(b, "%s")' % (T, T, T))
w("//@   assigns nothing")
w("")
SIZEOF = {'bool': 1, 'int': 8, 'int8': 1, 'int16': 2, 'int32': 4, 'int64': 8, 'uint': 8, 'uint8': 1, 'uint16': 2, 'uint32': 4, 'uint64': 8, 'uintptr': 8, 'float32': 4, 'float64': 8, 'complex64': 8, 'complex128': 16, 'string': 16, 'unsafe.Pointer': 8}
w("""// a scalar operand is boxed into a fresh one-element storage header (pooled; trusted)
//@ func tensor.scalarToHeader
//@   trusted
//@   ensures [fresh] fresh(hdr) && fresh(hdr.Raw)""")
for T in KINDS18:
    w('//@   ensures [%s] hastype(a, "%s") ==> len(tview("%s", hdr)) == 1 && len(hdr.Raw) == %d && tview("%s", hdr)[0] == unbox("%s", a)' % (T, T, T, SIZEOF[T], T, T))
w("//@   assigns nothing")
w("""
//@ func tensor.freeScalar
//@   trusted
//@   assigns whole(bs)

//@ func tensor.returnHeader
//@   trusted
//@   assigns hdr.Raw

//@ func storage.Fill
//@   trusted
//@   params t dst src""")
for T in KINDS18:
    w('//@   let %s = tview("%s", dst)' % (VV("d", T), T))
w("//@   assigns " + ", ".join("whole(%s)" % VV("d", T) for T in KINDS18))
w("")
for OP, TYPES in ARITH_T.items():
    w("//@ schema eng_arith_scalar_%s match tensor.StdEng.{Op}Scalar" % OP.lower())
    w("//@   where Op in %s" % OP)
    w("//@   props C07 C06")
    w("//@   config devirt tensor.Tensor=*tensor.Dense,tensor.DenseTensor=*tensor.Dense")
    for T in ALL:
        w('//@   let %s = tview("%s", %s)' % (V("t", T), T, T_))
    w('//@   requires [dyn] typeis(t, "*tensor.Dense") && t.val != 0')
    w('//@   requires [engines] !isnil(%s.e)' % T_)
    w('//@   requires [wf_t] len(%s.old.strides) <= cap(%s.old.shape) && len(%s.Raw) / rsize(%s.t) == prodInts(%s.shape, len(%s.shape))' % ((T_,)*6))
    w('//@   requires [dims_t] forall i :: 0 <= i && i < len(%s.shape) ==> %s.shape[i] >= 0' % (T_, T_))
    # (a consequence of wf_t that needs induction over the shape: a product of non-negative extents is 1 only if all are 1)
    w('//@   requires [single_element_shape] (len(%s.Raw) / rsize(%s.t) == 1) <==> allOnes(%s.shape)' % (T_, T_, T_))
    w('//@   requires [metadata_sep] %s.Raw.arr != %s.shape.arr && %s.Raw.arr != %s.strides.arr' % (T_, T_, T_, T_))
    w('//@   requires [reuse_distinct] opt_reuse(opts.arr) != 0 ==> %s != %s && %s.Raw.arr != %s.Raw.arr' % (R, T_, R, T_))
    w('//@   ensures [unsafe_returns_t] err == nil && opt_reuse(opts.arr) == 0 && !opt_safe(opts.arr) ==> retVal == t')
    w('//@   ensures [reuse_returned] err == nil && opt_reuse(opts.arr) != 0 ==> retVal.val == opt_reuse(opts.arr)')
    w('//@   ensures [safe_fresh] err == nil && opt_reuse(opts.arr) == 0 && opt_safe(opts.arr) ==> fresh(asptr("tensor.Dense", retVal)) && fresh(asptr("tensor.Dense", retVal).Raw)')
    w('//@   ensures [t_kept] (opt_reuse(opts.arr) != 0 || opt_safe(opts.arr)) ==> ' + " && ".join('(%s.t.Type == rtype("%s") && !(opt_incr(opts.arr) && len(%s) == 1) ==> unchanged(%s))' % (T_, T, V("t", T), V("t", T)) for T in TYPES))
    def binop_(op, T):
        if op == "Mod" and T in FLOATS: return "op_Mod_" + T
        if op == "Pow": return "op_Pow_" + T
        return "op_" + op
    for T in TYPES:
        if OP == "Div" and T in INTS:
            continue  # integer division by zero: the kernels' own rule (known findings) applies
        f = binop_(OP, T)
        tv = V("t", T)
        w('//@   ensures [unsafe_value_%s] err == nil && old(flatOK(%s)) && %s.t.Type == rtype("%s") && opt_reuse(opts.arr) == 0 && !opt_safe(opts.arr) ==> (forall i :: 0 <= i && i < len(%s) ==> %s[i] == (leftTensor ? %s(old(%s[i]), unbox("%s", s)) : %s(unbox("%s", s), old(%s[i]))))' % (T, T_, T_, T, tv, tv, f, tv, T, f, T, tv))
    w("//@   config frame any")
    w("")

# ---------------- tensor-scalar comparison methods ----------------
CMPS = {"Gt": ("gogt", ORD), "Gte": ("goge", ORD), "Lt": ("golt", ORD), "Lte": ("gole", ORD), "Eq": ("goeq", EQT), "Ne": ("gone", EQT)}
for OPN, (f, types) in CMPS.items():
    w("//@ schema eng_cmp_scalar_%s match tensor.StdEng.{Op}Scalar" % OPN.lower())
    w("//@   where Op in %s" % OPN)
    w("//@   props C11")
    w("//@   config devirt tensor.Tensor=*tensor.Dense,tensor.DenseTensor=*tensor.Dense")
    for T in types:
        w('//@   let %s = tview("%s", %s)' % (V("t", T), T, T_))
    w('//@   requires [dyn] typeis(t, "*tensor.Dense") && t.val != 0')
    w('//@   requires [engines] !isnil(%s.e)' % T_)
    w('//@   requires [wf_t] len(%s.old.strides) <= cap(%s.old.shape) && len(%s.Raw) / rsize(%s.t) == prodInts(%s.shape, len(%s.shape))' % ((T_,)*6))
    w('//@   requires [dims_t] forall i :: 0 <= i && i < len(%s.shape) ==> %s.shape[i] >= 0' % (T_, T_))
    w('//@   requires [single_element_shape] (len(%s.Raw) / rsize(%s.t) == 1) <==> allOnes(%s.shape)' % (T_, T_, T_))
    w('//@   requires [whole_elements] len(%s.Raw) %% rsize(%s.t) == 0' % (T_, T_))
    w('//@   requires [metadata_sep] %s.Raw.arr != %s.shape.arr && %s.Raw.arr != %s.strides.arr' % (T_, T_, T_, T_))
    w('//@   requires [reuse_distinct] opt_reuse(opts.arr) != 0 ==> %s != %s && %s.Raw.arr != %s.Raw.arr' % (R, T_, R, T_))
    # a reuse tensor receives booleans unless same-type output is requested: it must then hold booleans (with any wider
    # element type the tensor-scalar kernels run over the reuse tensor's byte length and index past the operand: observed,
    # excluded here as caller misuse); a reuse tensor together with UseUnsafe is excluded for the same reason
    w('//@   requires [reuse_mode] opt_reuse(opts.arr) != 0 ==> opt_safe(opts.arr) && (!opt_same(opts.arr) ==> %s.t.Type == rtype("bool"))' % R)
    w('//@   ensures [unsafe_returns_t] err == nil && opt_reuse(opts.arr) == 0 && !opt_safe(opts.arr) ==> retVal == t')
    w('//@   ensures [reuse_returned] err == nil && opt_reuse(opts.arr) != 0 ==> retVal.val == opt_reuse(opts.arr)')
    w('//@   ensures [safe_fresh] err == nil && opt_reuse(opts.arr) == 0 && opt_safe(opts.arr) ==> fresh(asptr("tensor.Dense", retVal)) && fresh(asptr("tensor.Dense", retVal).Raw)')
    w('//@   ensures [t_kept] (opt_reuse(opts.arr) != 0 || opt_safe(opts.arr)) ==> ' + " && ".join('(%s.t.Type == rtype("%s") ==> unchanged(%s))' % (T_, T, V("t", T)) for T in types))
    for T in types:
        tv = V("t", T)
        if T != "bool":
            cmpu = '(leftTensor ? %s(old(%s[i]), unbox("%s", s)) : %s(unbox("%s", s), old(%s[i])))' % (f, tv, T, f, T, tv)
            w('//@   ensures [unsafe_value_%s] err == nil && old(flatOK(%s)) && %s.t.Type == rtype("%s") && opt_reuse(opts.arr) == 0 && !opt_safe(opts.arr) ==> (forall i :: 0 <= i && i < len(%s) ==> %s[i] == (%s ? %s : %s))' % (T, T_, T_, T, tv, tv, cmpu, one(T), zero(T)))
        cmpv = '(leftTensor ? %s(old(%s[i]), unbox("%s", s)) : %s(unbox("%s", s), old(%s[i])))' % (f, tv, T, f, T, tv)
        w('//@   ensures [bool_value_%s] err == nil && old(flatOK(%s)) && %s.t.Type == rtype("%s") && opt_reuse(opts.arr) == 0 && opt_safe(opts.arr) && !opt_same(opts.arr) ==> (forall i :: 0 <= i && i < len(%s) ==> tview("bool", asptr("tensor.Dense", retVal))[i] == %s)' % (T, T_, T_, T, tv, cmpv))
        if T != "bool":
            w('//@   ensures [same_value_%s] err == nil && old(flatOK(%s)) && %s.t.Type == rtype("%s") && opt_reuse(opts.arr) == 0 && opt_safe(opts.arr) && opt_same(opts.arr) ==> (forall i :: 0 <= i && i < len(%s) ==> tview("%s", asptr("tensor.Dense", retVal))[i] == (%s ? %s : %s))' % (T, T_, T_, T, tv, T, cmpv, one(T), zero(T)))
    w("//@   config frame any")
    w("")

# ---------------- float32/float64-specialised engines: Add (C20: same result and same effect as the default engine) ----------------
for W, T in (("64", "float64"), ("32", "float32")):
    w("""//@ func tensor.handleFuncOptsF%s
//@   trusted
//@   ensures [modes] err == nil ==> (toReuse <==> !isnil(reuse)) && (incr ==> toReuse) && (toReuse ==> typeis(reuse, "*tensor.Dense"))
//@   ensures [from_opts] err == nil ==> reuse.val == opt_reuse(opts.arr) && (isnil(reuse) <==> opt_reuse(opts.arr) == 0) && incr == opt_incr(opts.arr) && safe == opt_safe(opts.arr)
//@   assigns asptr("tensor.Dense", opt_reuse(opts.arr)).AP
""" % W)
    av, bv, rv = 'tview("%s", %s)' % (T, A), 'tview("%s", %s)' % (T, B), 'tview("%s", %s)' % (T, R)
    w("//@ func tensor.Float%sEngine.Add" % W)
    w("//@   props C20 C07")
    w("//@   config devirt tensor.Tensor=*tensor.Dense,tensor.DenseTensor=*tensor.Dense,tensor.headerer=*tensor.Dense")
    w('//@   requires [dyn] typeis(a, "*tensor.Dense") && typeis(b, "*tensor.Dense") && a.val != 0 && b.val != 0')
    w('//@   requires [engines] !isnil(%s.e) && !isnil(%s.e)' % (A, B))
    w('//@   requires [wf_a] len(%s.old.strides) <= cap(%s.old.shape) && len(%s.Raw) / rsize(%s.t) == prodInts(%s.shape, len(%s.shape))' % (A, A, A, A, A, A))
    w('//@   requires [dims_a] forall i :: 0 <= i && i < len(%s.shape) ==> %s.shape[i] >= 0' % (A, A))
    w('//@   requires [wf_b] len(%s.old.strides) <= cap(%s.old.shape)' % (B, B))
    w('//@   requires [dims_b] forall i :: 0 <= i && i < len(%s.shape) ==> %s.shape[i] >= 0' % (B, B))
    # (with different element types and no reuse tensor the error message itself dereferences the nil reuse: observed, excluded)
    w('//@   requires [same_dtype] %s.t == %s.t' % (A, B))
    w('//@   requires [same_len] len(%s.Raw) == len(%s.Raw)' % (A, B))
    w('//@   requires [storage] %s == %s || %s.Raw.arr != %s.Raw.arr' % (A, B, A, B))
    w('//@   requires [reuse_distinct] opt_reuse(opts.arr) != 0 ==> %s != %s && %s != %s && %s.Raw.arr != %s.Raw.arr && %s.Raw.arr != %s.Raw.arr && len(%s.Raw) == len(%s.Raw) && %s.t == %s.t' % (R, A, R, B, R, A, R, B, R, A, R, A))
    w('//@   ensures [unsafe_returns_a] err == nil && opt_reuse(opts.arr) == 0 && !opt_safe(opts.arr) ==> retVal == a')
    w('//@   ensures [reuse_returned] err == nil && opt_reuse(opts.arr) != 0 ==> retVal.val == opt_reuse(opts.arr)')
    w('//@   ensures [safe_fresh] err == nil && opt_reuse(opts.arr) == 0 && opt_safe(opts.arr) ==> fresh(asptr("tensor.Dense", retVal)) && fresh(asptr("tensor.Dense", retVal).Raw)')
    flat = 'old(flatOK(%s) && flatOK(%s))' % (A, B)
    w('//@   ensures [reuse_value] err == nil && %s.t.Type == rtype("%s") && %s && opt_reuse(opts.arr) != 0 && !opt_incr(opts.arr) ==> (forall i :: 0 <= i && i < len(%s) ==> %s[i] == op_Add(old(%s[i]), old(%s[i])))' % (A, T, flat, av, rv, av, bv))
    w('//@   ensures [incr_value] err == nil && %s.t.Type == rtype("%s") && %s && opt_reuse(opts.arr) != 0 && opt_incr(opts.arr) ==> (forall i :: 0 <= i && i < len(%s) ==> %s[i] == op_Add(old(%s[i]), op_Add(old(%s[i]), old(%s[i]))))' % (A, T, flat, av, rv, rv, av, bv))
    w('//@   ensures [unsafe_value] err == nil && %s.t.Type == rtype("%s") && %s && %s != %s && opt_reuse(opts.arr) == 0 && !opt_safe(opts.arr) ==> (forall i :: 0 <= i && i < len(%s) ==> %s[i] == op_Add(old(%s[i]), old(%s[i])))' % (A, T, flat, A, B, av, av, av, bv))
    w('//@   ensures [b_kept] %s.t.Type == rtype("%s") && %s && %s != %s ==> unchanged(%s)' % (A, T, flat, A, B, bv))
    w('//@   ensures [a_kept] %s.t.Type == rtype("%s") && %s && (opt_reuse(opts.arr) != 0 || opt_safe(opts.arr)) ==> unchanged(%s)' % (A, T, flat, av))
    w("//@   config frame any")
    w("")

hdr = """//go:build verif

package tensor

// Contracts for the generated engine methods. Comment-only. Generated by /verif/contracts/gen_engine.py.

"""
open(os.environ.get("REPO", "/repo") + "/verif_contracts_eng.go", "w").write(hdr + "\n".join(out) + "\n")
print("wrote", len(out))
