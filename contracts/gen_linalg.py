#!/usr/bin/env python3
"""Generates <repo>/verif_contracts_linalg.go: C09 - the BLAS calls of the default engine address the operands' LOGICAL
matrices and vectors (parameter mapping: trans flags, dimensions, leading dimensions, increments, operand order)."""
import os
out = []
def w(s=""): out.extend(s.split("\n"))
TY = [("S", "float32"), ("D", "float64"), ("C", "complex64"), ("Z", "complex128")]
NT, TR = "uint8(78)", "uint8(84)"   # blas.NoTrans = 'N', blas.Trans = 'T'
A, B, C = 'asptr("tensor.Dense", a)', 'asptr("tensor.Dense", b)', 'asptr("tensor.Dense", prealloc)'
w('''// Ghost fields attached to a storage array: the logical shape and strides of the tensor that owns it
// (mat_rows/mat_cols/mat_s0/mat_s1 for a matrix, vec_len/vec_s for a vector). The engine methods require them to
// describe their operands (and, for a product, which storage is meant as left and right factor: want_left/want_right);
// the trusted BLAS contracts require that the parameters they are given address exactly those logical matrices /
// vectors in that order, either directly or through the transposed reading C^T = B^T A^T.

//@ func tensor.StdEng.checkThreeFloatComplexTensors
//@   trusted
//@   ensures [same] err == nil ==> ad.val == a.val && bd.val == b.val && retVal.val == ret.val && typeis(ad, "*tensor.Dense") && typeis(bd, "*tensor.Dense") && typeis(retVal, "*tensor.Dense")
//@   ensures [types] err == nil ==> asptr("tensor.Dense", a).t == asptr("tensor.Dense", b).t && asptr("tensor.Dense", b).t == asptr("tensor.Dense", ret).t
//@   assigns nothing

//@ func tensor.Dense.Data
//@   trusted''')
for _, T in TY:
    w('//@   ensures [%s] t.t.Type == rtype("%s") && len(t.shape) > 0 ==> typeis(result, "[]%s") && same(unboxslice("%s", result), tview("%s", t)) && len(unboxslice("%s", result)) == len(tview("%s", t))' % (T, T, T, T, T, T, T))
w("//@   assigns nothing")
w("")
def opidx(t, i, j, ld): return "(%s == %s ? %s * %s + %s : %s * %s + %s)" % (t, NT, i, ld, j, j, ld, i)
for P, T in TY:
    # ---- gemv: y = op(A) x ----
    w("//@ func tensor.BLAS.%sgemv" % P)
    w("//@   trusted")
    w("//@   params impl tA m n alpha a lda x incX beta y incY")
    w("//@   requires [dims] m >= 0 && n >= 0 && lda >= n && lda >= 1")
    w("//@   requires [len_a] m > 0 && n > 0 ==> len(a) >= lda * (m - 1) + n")
    w('//@   requires [logical_shape] tA == %s ? (m == gh("mat_rows", a.arr) && n == gh("mat_cols", a.arr)) : (n == gh("mat_rows", a.arr) && m == gh("mat_cols", a.arr))' % NT)
    w('//@   requires [logical_layout] forall i, j :: 0 <= i && i < gh("mat_rows", a.arr) && 0 <= j && j < gh("mat_cols", a.arr) ==> %s == i * gh("mat_s0", a.arr) + j * gh("mat_s1", a.arr)' % opidx("tA", "i", "j", "lda"))
    w('//@   requires [x_layout] incX == gh("vec_s", x.arr) && gh("vec_len", x.arr) == gh("mat_cols", a.arr)')
    w('//@   requires [y_layout] incY == gh("vec_s", y.arr) && gh("vec_len", y.arr) == gh("mat_rows", a.arr)')
    w("//@   assigns whole(y)")
    w("")
    # ---- gemm: C = op(A) op(B), row-major storage with leading dimensions ----
    w("//@ func tensor.BLAS.%sgemm" % P)
    w("//@   trusted")
    w("//@   params impl tA tB m n k alpha a lda b ldb beta c ldc")
    w("//@   requires [dims] m >= 0 && n >= 0 && k >= 0 && lda >= 1 && ldb >= 1 && ldc >= 1 && ldc >= n")
    X = lambda f: 'gh("%s", a.arr)' % f
    Y = lambda f: 'gh("%s", b.arr)' % f
    Z = lambda f: 'gh("%s", c.arr)' % f
    direct = ("(m == %s && k == %s && k == %s && n == %s && m == %s && n == %s" % (X("mat_rows"), X("mat_cols"), Y("mat_rows"), Y("mat_cols"), Z("mat_rows"), Z("mat_cols"))
      + " && (forall i, l :: 0 <= i && i < m && 0 <= l && l < k ==> %s == i * %s + l * %s)" % (opidx("tA", "i", "l", "lda"), X("mat_s0"), X("mat_s1"))
      + " && (forall l, j :: 0 <= l && l < k && 0 <= j && j < n ==> %s == l * %s + j * %s)" % (opidx("tB", "l", "j", "ldb"), Y("mat_s0"), Y("mat_s1"))
      + " && (forall i, j :: 0 <= i && i < m && 0 <= j && j < n ==> i * ldc + j == i * %s + j * %s))" % (Z("mat_s0"), Z("mat_s1")))
    # transposed reading: the call computes Z^T = op(a) op(b) where op(a)(i,l) is logical Y... i.e. first = transpose of the
    # logical RIGHT factor, second = transpose of the logical LEFT factor, result stored transposed
    transp = ("(m == %s && k == %s && k == %s && n == %s && n == %s && m == %s" % (X("mat_cols"), X("mat_rows"), Y("mat_cols"), Y("mat_rows"), Z("mat_rows"), Z("mat_cols"))
      + " && (forall i, l :: 0 <= i && i < m && 0 <= l && l < k ==> %s == l * %s + i * %s)" % (opidx("tA", "i", "l", "lda"), X("mat_s0"), X("mat_s1"))
      + " && (forall l, j :: 0 <= l && l < k && 0 <= j && j < n ==> %s == j * %s + l * %s)" % (opidx("tB", "l", "j", "ldb"), Y("mat_s0"), Y("mat_s1"))
      + " && (forall i, j :: 0 <= i && i < m && 0 <= j && j < n ==> i * ldc + j == j * %s + i * %s))" % (Z("mat_s0"), Z("mat_s1")))
    # want_left/want_right (ghost, set by the caller's contract): which storages the result is meant to be the product of
    w('//@   requires [logical_product] (%s && gh("want_left", c.arr) == a.arr && gh("want_right", c.arr) == b.arr) || (%s && gh("want_left", c.arr) == b.arr && gh("want_right", c.arr) == a.arr)' % (direct, transp))
    w('//@   assigns whole(c)')
    w("")
    # ---- ger: A = x y^T ----
    gname = {"S": "Sger", "D": "Dger", "C": "Cgeru", "Z": "Zgeru"}[P]
    w("//@ func tensor.BLAS.%s" % gname)
    w("//@   trusted")
    w("//@   params impl m n alpha x incX y incY a lda")
    w("//@   requires [dims] m >= 0 && n >= 0 && lda >= n && lda >= 1")
    w('//@   requires [x_layout] incX == gh("vec_s", x.arr) && gh("vec_len", x.arr) == m')
    w('//@   requires [y_layout] incY == gh("vec_s", y.arr) && gh("vec_len", y.arr) == n')
    w('//@   requires [logical_shape] m == gh("mat_rows", a.arr) && n == gh("mat_cols", a.arr)')
    w('//@   requires [logical_layout] forall i, j :: 0 <= i && i < m && 0 <= j && j < n ==> i * lda + j == i * gh("mat_s0", a.arr) + j * gh("mat_s1", a.arr)')
    w("//@   assigns whole(a)")
    w("")
def ghost_mat(P, name):
    return 'gh("mat_rows", %s.Raw.arr) == %s.shape[0] && gh("mat_cols", %s.Raw.arr) == %s.shape[1] && gh("mat_s0", %s.Raw.arr) == %s.strides[0] && gh("mat_s1", %s.Raw.arr) == %s.strides[1]' % ((P,)*8)
def ghost_vec(P):
    return 'gh("vec_len", %s.Raw.arr) == %s.shape[0] && gh("vec_s", %s.Raw.arr) == %s.strides[0]' % ((P,)*4)
def contiguous2(P):
    # a contiguous matrix, possibly lazily transposed: strides (cols,1) or (1,rows) according to order xor transposed
    return '(((%s.AP.o & ColMajor) == DataOrder(0)) == apIsZero(%s.old) ? (%s.strides[0] == %s.shape[1] && %s.strides[1] == 1) : (%s.strides[0] == 1 && %s.strides[1] == %s.shape[0]))' % ((P,)*8)
FLOATK = " || ".join('%s.t.Type == rtype("%s")' % (A, T) for _, T in TY)
common = ['config devirt tensor.Tensor=*tensor.Dense,tensor.DenseTensor=*tensor.Dense',
          'requires [dyn] typeis(a, "*tensor.Dense") && typeis(b, "*tensor.Dense") && typeis(prealloc, "*tensor.Dense") && a.val != 0 && b.val != 0 && prealloc.val != 0',
          'requires [kind] ' + FLOATK]
# ---- MatVecMul ----
w("//@ func tensor.StdEng.MatVecMul")
w("//@   props C09 C16")
for c in common: w("//@   " + c)
w('//@   requires [ranks] len(%s.shape) == 2 && len(%s.strides) == 2 && len(%s.shape) == 1 && len(%s.strides) == 1 && len(%s.shape) == 1 && len(%s.strides) == 1' % (A, A, B, B, C, C))
w('//@   requires [old_rank] apIsZero(%s.old) || (len(%s.old.shape) == 2 && len(%s.old.strides) == 2 && %s.old.shape[0] == %s.shape[1] && %s.old.shape[1] == %s.shape[0])' % (A, A, A, A, A, A, A))
w('//@   requires [shapes] %s.shape[0] >= 1 && %s.shape[1] >= 1 && %s.shape[0] == %s.shape[1] && %s.shape[0] == %s.shape[0]' % (A, A, B, A, C, A))
w('//@   requires [ghost_a] ' + ghost_mat(A, "a"))
w('//@   requires [ghost_x] ' + ghost_vec(B))
w('//@   requires [ghost_y] ' + ghost_vec(C))
w('//@   requires [contiguous_a] ' + contiguous2(A))
w('//@   requires [contiguous_xy] %s.strides[0] == 1 && %s.strides[0] == 1' % (B, C))
for _, T in TY:
    w('//@   requires [storage_%s] %s.t.Type == rtype("%s") ==> len(tview("%s", %s)) >= (%s.shape[0] - 1) * %s.strides[0] + (%s.shape[1] - 1) * %s.strides[1] + 1' % (T, A, T, T, A, A, A, A, A))
w("//@   config frame any")
w("")
# ---- MatMul ----
w("//@ func tensor.StdEng.MatMul")
w("//@   props C09 C16")
for c in common: w("//@   " + c)
w('//@   requires [ranks] ' + " && ".join('len(%s.shape) == 2 && len(%s.strides) == 2' % (P, P) for P in (A, B, C)))
w('//@   requires [shapes] %s.shape[0] >= 1 && %s.shape[1] >= 1 && %s.shape[1] >= 1 && %s.shape[0] == %s.shape[1] && %s.shape[0] == %s.shape[0] && %s.shape[1] == %s.shape[1]' % (A, A, B, B, A, C, A, C, B))
w('//@   requires [same_order] (%s.AP.o & ColMajor) == (%s.AP.o & ColMajor) && (%s.AP.o & ColMajor) == (%s.AP.o & ColMajor)' % (A, B, A, C))
w('//@   requires [result_plain] apIsZero(%s.old) && ((%s.AP.o & ColMajor) == DataOrder(0) ? (%s.strides[0] == %s.shape[1] && %s.strides[1] == 1) : (%s.strides[0] == 1 && %s.strides[1] == %s.shape[0]))' % (C, C, C, C, C, C, C, C))
w('//@   requires [ghost_a] ' + ghost_mat(A, "a"))
w('//@   requires [ghost_b] ' + ghost_mat(B, "b"))
w('//@   requires [ghost_c] ' + ghost_mat(C, "c"))
w('//@   requires [contiguous_a] ' + contiguous2(A))
w('//@   requires [contiguous_b] ' + contiguous2(B))
w('//@   requires [distinct_storage] %s.Raw.arr != %s.Raw.arr && %s.Raw.arr != %s.Raw.arr && %s.Raw.arr != %s.Raw.arr' % (C, A, C, B, A, B))
# the column-major call swaps the operands but not the transposition flags: with exactly one lazily transposed
# column-major operand the flags end up on the wrong operand (observed defect, excluded here)
w('//@   requires [colmajor_same_transposition] (%s.AP.o & ColMajor) != DataOrder(0) ==> (apIsZero(%s.old) == apIsZero(%s.old))' % (A, A, B))
w('//@   requires [intent] gh("want_left", %s.Raw.arr) == %s.Raw.arr && gh("want_right", %s.Raw.arr) == %s.Raw.arr' % (C, A, C, B))
w("//@   config frame any")
w("")
# ---- Inner: dot(n, x, incX, y, incY) ----
w("""// the inner product hands (n, x, 1, y, 1) to BLAS dot: that addresses the operands' logical vectors only when both are
// contiguous vectors of one length (strided vector views are read from the wrong storage positions: observed,
// stated as precondition [contiguous])
//@ func tensor.StdEng.checkTwoFloatComplexTensors
//@   trusted
//@   ensures [same] err == nil ==> ad.val == a.val && bd.val == b.val && typeis(ad, "*tensor.Dense") && typeis(bd, "*tensor.Dense")
//@   ensures [types] err == nil ==> asptr("tensor.Dense", a).t == asptr("tensor.Dense", b).t
//@   assigns nothing
""")
for P, T in TY:
    dn = {"S": "Sdot", "D": "Ddot", "C": "Cdotu", "Z": "Zdotu"}[P]
    w("//@ func tensor.BLAS.%s" % dn)
    w("//@   trusted")
    w("//@   params impl n x incX y incY")
    w("//@   requires [dims] n >= 0 && incX != 0 && incY != 0")
    w("//@   requires [len] n > 0 ==> len(x) > (n - 1) * incX && len(y) > (n - 1) * incY")
    w('//@   requires [x_layout] incX == gh("vec_s", x.arr) && gh("vec_len", x.arr) == n')
    w('//@   requires [y_layout] incY == gh("vec_s", y.arr) && gh("vec_len", y.arr) == n')
    w("//@   assigns nothing")
    w("")
w("//@ func tensor.StdEng.Inner")
w("//@   props C09")
w('//@   config devirt tensor.Tensor=*tensor.Dense,tensor.DenseTensor=*tensor.Dense')
w('//@   requires [dyn] typeis(a, "*tensor.Dense") && typeis(b, "*tensor.Dense") && a.val != 0 && b.val != 0')
w('//@   requires [kind] ' + FLOATK)
w('//@   requires [ranks] len(%s.shape) == 1 && len(%s.strides) == 1 && len(%s.shape) == 1 && len(%s.strides) == 1' % (A, A, B, B))
w('//@   requires [shapes] %s.shape[0] >= 1 && %s.shape[0] == %s.shape[0]' % (A, A, B))
w('//@   requires [ghost_x] ' + ghost_vec(A))
w('//@   requires [ghost_y] ' + ghost_vec(B))
w('//@   requires [contiguous] %s.strides[0] == 1 && %s.strides[0] == 1' % (A, B))
for _, T in TY:
    w('//@   requires [storage_%s] %s.t.Type == rtype("%s") ==> len(tview("%s", %s)) == %s.shape[0] && len(tview("%s", %s)) >= %s.shape[0]' % (T, A, T, T, A, A, T, B, B))
w("//@   config frame any")
w("")
# ---- Outer: ger(m, n, 1, x, 1, y, 1, A, lda) for a row-major result ----
w("""// the outer product of two vectors into a row-major matrix hands (m, n, x, 1, y, 1, A, lda = columns) to BLAS ger; the
// column-major result goes through Reshape + MatMul and is not under this contract (precondition [row_major])""")
w("//@ func tensor.StdEng.Outer")
w("//@   props C09")
for c in common: w("//@   " + c)
w("//@   config prune solver")
w('//@   requires [row_major] (%s.AP.o & ColMajor) == DataOrder(0)' % C)
w('//@   requires [ranks] len(%s.shape) == 1 && len(%s.strides) == 1 && len(%s.shape) == 1 && len(%s.strides) == 1 && len(%s.shape) == 2 && len(%s.strides) == 2' % (A, A, B, B, C, C))
w('//@   requires [shapes] %s.shape[0] >= 1 && %s.shape[0] >= 1 && %s.shape[0] == %s.shape[0] && %s.shape[1] == %s.shape[0]' % (A, B, C, A, C, B))
w('//@   requires [ghost_x] ' + ghost_vec(A))
w('//@   requires [ghost_y] ' + ghost_vec(B))
w('//@   requires [ghost_a] ' + ghost_mat(C, "c"))
w('//@   requires [contiguous] %s.strides[0] == 1 && %s.strides[0] == 1 && %s.strides[0] == %s.shape[1] && %s.strides[1] == 1' % (A, B, C, C, C))
w("//@   config frame any")
w("")
# the float32/float64-specialised engines' Inner (C20): the same parameter mapping, on the typed views directly
for W, T in (("64", "float64"), ("32", "float32")):
    w("//@ func tensor.Float%sEngine.Inner" % W)
    w("//@   props C20 C09")
    w('//@   requires [dyn] typeis(a, "*tensor.Dense") && typeis(b, "*tensor.Dense") && a.val != 0 && b.val != 0')
    w('//@   requires [kind] %s.t.Type == rtype("%s") && %s.t.Type == rtype("%s")' % (A, T, B, T))
    w('//@   requires [ranks] len(%s.shape) == 1 && len(%s.strides) == 1 && len(%s.shape) == 1 && len(%s.strides) == 1' % (A, A, B, B))
    w('//@   requires [shapes] %s.shape[0] >= 1 && %s.shape[0] == %s.shape[0]' % (A, A, B))
    w('//@   requires [ghost_x] ' + ghost_vec(A))
    w('//@   requires [ghost_y] ' + ghost_vec(B))
    w('//@   requires [contiguous] %s.strides[0] == 1 && %s.strides[0] == 1' % (A, B))
    w('//@   requires [storage] len(tview("%s", %s)) == %s.shape[0] && len(tview("%s", %s)) >= %s.shape[0]' % (T, A, A, T, B, B))
    w('//@   ensures [ok] err == nil')
    w("//@   config frame any")
    w("")
hdr = """//go:build verif

package tensor

// C09 contracts. Comment-only. Generated by /verif/contracts/gen_linalg.py.

"""
open(os.environ.get("REPO", "/repo") + "/verif_contracts_linalg.go", "w").write(hdr + "\n".join(out) + "\n")
print("wrote", len(out))
