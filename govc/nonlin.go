package main

import (
	"sort"
	"strings"
)

// abstractNonlinear weakens a query by replacing products of two non-literal terms and
// truncated division/remainder by a non-literal divisor with uninterpreted functions
// (umul is made commutative by sorting its arguments). Every model of the original query is a
// model of the abstraction, so "unsat" carries over; "sat" does not and is discarded.
func abstractNonlinear(q string) (string, bool) {
	changed := false
	var rewrite func(s string) string
	rewrite = func(s string) string {
		s = strings.TrimSpace(s)
		if !strings.HasPrefix(s, "(") {
			return s
		}
		// split into head and args
		body := s[1 : len(s)-1]
		var parts []string
		i := 0
		for i < len(body) {
			for i < len(body) && (body[i] == ' ' || body[i] == '\n' || body[i] == '\t') {
				i++
			}
			if i >= len(body) {
				break
			}
			e := sexprEnd(body, i)
			parts = append(parts, body[i:e])
			i = e
		}
		if len(parts) == 0 {
			return s
		}
		for k := 1; k < len(parts); k++ {
			parts[k] = rewrite(parts[k])
		}
		// binders: rewrite only the body (variable lists are left alone by the loop above
		// because they contain no products)
		isNum := func(t string) bool {
			_, ok := Term{t, SInt}.IsLit()
			return ok
		}
		switch parts[0] {
		case "*":
			if len(parts) == 3 && !isNum(parts[1]) && !isNum(parts[2]) {
				a := []string{parts[1], parts[2]}
				sort.Strings(a)
				changed = true
				return "(umul " + a[0] + " " + a[1] + ")"
			}
		case "goquo":
			if len(parts) == 3 && !isNum(parts[2]) {
				changed = true
				return "(uquo " + parts[1] + " " + parts[2] + ")"
			}
		case "gorem":
			if len(parts) == 3 && !isNum(parts[2]) {
				changed = true
				return "(urem " + parts[1] + " " + parts[2] + ")"
			}
		}
		return "(" + strings.Join(parts, " ") + ")"
	}
	var out strings.Builder
	i := 0
	for i < len(q) {
		for i < len(q) && q[i] != '(' {
			out.WriteByte(q[i])
			i++
		}
		if i >= len(q) {
			break
		}
		e := sexprEnd(q, i)
		cmd := q[i:e]
		if strings.HasPrefix(cmd, "(assert ") || strings.HasPrefix(cmd, "(define-fun") {
			out.WriteString(rewrite(cmd))
		} else {
			out.WriteString(cmd)
		}
		i = e
	}
	if !changed {
		return q, false
	}
	decl := "(declare-fun umul (Int Int) Int)\n(declare-fun uquo (Int Int) Int)\n(declare-fun urem (Int Int) Int)\n"
	return decl + out.String(), true
}
