package main

import (
	"fmt"
	"os"
	"regexp"
	"sort"
	"strconv"
	"strings"
)

// ---------- expression AST ----------

type Expr struct {
	Op   string // "int","bool","nil","id","str","call","index","slice","sel","un","bin","forall","exists","ite"
	Name string // identifier / operator / field
	Int  int64
	Args []*Expr
	Vars []string
	src  string
}

func (e *Expr) String() string {
	switch e.Op {
	case "int":
		return strconv.FormatInt(e.Int, 10)
	case "bool", "id", "nil":
		return e.Name
	case "str":
		return strconv.Quote(e.Name)
	case "call":
		var as []string
		for _, a := range e.Args[1:] {
			as = append(as, a.String())
		}
		return e.Args[0].String() + "(" + strings.Join(as, ", ") + ")"
	case "index":
		return e.Args[0].String() + "[" + e.Args[1].String() + "]"
	case "slice":
		return e.Args[0].String() + "[" + e.Args[1].String() + ":" + e.Args[2].String() + "]"
	case "sel":
		return e.Args[0].String() + "." + e.Name
	case "un":
		return e.Name + e.Args[0].String()
	case "bin":
		return "(" + e.Args[0].String() + " " + e.Name + " " + e.Args[1].String() + ")"
	case "forall", "exists":
		return "(" + e.Op + " " + strings.Join(e.Vars, ", ") + " :: " + e.Args[0].String() + ")"
	case "ite":
		return "(" + e.Args[0].String() + " ? " + e.Args[1].String() + " : " + e.Args[2].String() + ")"
	}
	return "?" + e.Op
}

type tok struct {
	kind string // "int","id","op","str","eof"
	text string
}

func lexExpr(s string) ([]tok, error) {
	var toks []tok
	i := 0
	ops := []string{"<==>", "==>", "::", "&&", "||", "==", "!=", "<=", ">=", "<<", ">>", "&^", "..",
		"+", "-", "*", "/", "%", "<", ">", "!", "(", ")", "[", "]", ",", ":", "?", ".", "&", "|", "^", "{", "}"}
	for i < len(s) {
		c := s[i]
		switch {
		case c == ' ' || c == '\t' || c == '\n':
			i++
		case c >= '0' && c <= '9':
			j := i
			for j < len(s) && s[j] >= '0' && s[j] <= '9' {
				j++
			}
			toks = append(toks, tok{"int", s[i:j]})
			i = j
		case c == '"':
			j := i + 1
			for j < len(s) && s[j] != '"' {
				j++
			}
			if j >= len(s) {
				return nil, fmt.Errorf("unterminated string in %q", s)
			}
			toks = append(toks, tok{"str", s[i+1 : j]})
			i = j + 1
		case c == '_' || c == '$' || c == '#' || (c >= 'a' && c <= 'z') || (c >= 'A' && c <= 'Z') || c >= 0x80:
			j := i
			for j < len(s) && (s[j] == '_' || s[j] == '$' || s[j] == '#' || (s[j] >= 'a' && s[j] <= 'z') || (s[j] >= 'A' && s[j] <= 'Z') || (s[j] >= '0' && s[j] <= '9') || s[j] >= 0x80) {
				j++
			}
			toks = append(toks, tok{"id", s[i:j]})
			i = j
		default:
			matched := false
			for _, op := range ops {
				if strings.HasPrefix(s[i:], op) {
					toks = append(toks, tok{"op", op})
					i += len(op)
					matched = true
					break
				}
			}
			if !matched {
				return nil, fmt.Errorf("bad character %q in %q", c, s)
			}
		}
	}
	toks = append(toks, tok{"eof", ""})
	return toks, nil
}

type parser struct {
	toks []tok
	pos  int
	src  string
}

func (p *parser) peek() tok { return p.toks[p.pos] }
func (p *parser) next() tok { t := p.toks[p.pos]; p.pos++; return t }
func (p *parser) accept(op string) bool {
	if t := p.peek(); t.kind == "op" && t.text == op {
		p.pos++
		return true
	}
	return false
}
func (p *parser) expect(op string) {
	if !p.accept(op) {
		panic(fmt.Errorf("expected %q at token %d (%q) in %q", op, p.pos, p.peek().text, p.src))
	}
}

func ParseExpr(s string) (e *Expr, err error) {
	toks, err := lexExpr(s)
	if err != nil {
		return nil, err
	}
	p := &parser{toks: toks, src: s}
	defer func() {
		if r := recover(); r != nil {
			if er, ok := r.(error); ok {
				err = er
				return
			}
			panic(r)
		}
	}()
	e = p.parseExpr(0)
	if p.peek().kind != "eof" {
		return nil, fmt.Errorf("trailing tokens at %q in %q", p.peek().text, s)
	}
	e.src = s
	return e, nil
}

var binPrec = map[string]int{
	"<==>": 1, "==>": 2, "?": 3, "||": 4, "&&": 5,
	"==": 6, "!=": 6, "<": 6, "<=": 6, ">": 6, ">=": 6,
	"+": 7, "-": 7, "|": 7, "^": 7,
	"*": 8, "/": 8, "%": 8, "&": 8, "<<": 8, ">>": 8, "&^": 8,
}

func (p *parser) parseExpr(minPrec int) *Expr {
	lhs := p.parseUnary()
	for {
		t := p.peek()
		if t.kind != "op" {
			break
		}
		prec, ok := binPrec[t.text]
		if !ok || prec < minPrec {
			break
		}
		p.next()
		if t.text == "?" {
			a := p.parseExpr(0)
			p.expect(":")
			b := p.parseExpr(prec)
			lhs = &Expr{Op: "ite", Args: []*Expr{lhs, a, b}}
			continue
		}
		var rhs *Expr
		if t.text == "==>" || t.text == "<==>" {
			rhs = p.parseExpr(prec) // right assoc
		} else {
			rhs = p.parseExpr(prec + 1)
		}
		lhs = &Expr{Op: "bin", Name: t.text, Args: []*Expr{lhs, rhs}}
	}
	return lhs
}

func (p *parser) parseUnary() *Expr {
	t := p.peek()
	if t.kind == "op" && (t.text == "!" || t.text == "-") {
		p.next()
		return &Expr{Op: "un", Name: t.text, Args: []*Expr{p.parseUnary()}}
	}
	if t.kind == "id" && (t.text == "forall" || t.text == "exists") {
		p.next()
		var vars []string
		for {
			v := p.next()
			if v.kind != "id" {
				panic(fmt.Errorf("expected bound variable in %q", p.src))
			}
			vars = append(vars, v.text)
			if !p.accept(",") {
				break
			}
		}
		p.expect("::")
		body := p.parseExpr(0)
		return &Expr{Op: t.text, Vars: vars, Args: []*Expr{body}}
	}
	return p.parsePostfix(p.parsePrimary())
}

func (p *parser) parsePrimary() *Expr {
	t := p.next()
	switch t.kind {
	case "int":
		n, _ := strconv.ParseInt(t.text, 10, 64)
		return &Expr{Op: "int", Int: n}
	case "str":
		return &Expr{Op: "str", Name: t.text}
	case "id":
		switch t.text {
		case "true", "false":
			return &Expr{Op: "bool", Name: t.text}
		case "nil":
			return &Expr{Op: "nil", Name: "nil"}
		}
		return &Expr{Op: "id", Name: t.text}
	case "op":
		if t.text == "(" {
			e := p.parseExpr(0)
			p.expect(")")
			return e
		}
	}
	panic(fmt.Errorf("unexpected token %q in %q", t.text, p.src))
}

func (p *parser) parsePostfix(e *Expr) *Expr {
	for {
		switch {
		case p.accept("("):
			args := []*Expr{e}
			if !p.accept(")") {
				for {
					args = append(args, p.parseExpr(0))
					if p.accept(")") {
						break
					}
					p.expect(",")
				}
			}
			e = &Expr{Op: "call", Args: args}
		case p.accept("["):
			var lo, hi *Expr
			if p.peek().text != ":" {
				lo = p.parseExpr(0)
			}
			if p.accept(":") {
				if p.peek().text != "]" {
					hi = p.parseExpr(0)
				}
				p.expect("]")
				e = &Expr{Op: "slice", Args: []*Expr{e, lo, hi}}
			} else {
				p.expect("]")
				e = &Expr{Op: "index", Args: []*Expr{e, lo}}
			}
		case p.accept("."):
			t := p.next()
			if t.kind != "id" {
				panic(fmt.Errorf("expected field name in %q", p.src))
			}
			e = &Expr{Op: "sel", Name: t.text, Args: []*Expr{e}}
		default:
			return e
		}
	}
}

// ---------- contract file ----------

type Clause struct {
	Kind  string // requires ensures invariant step decreases assigns
	Label string
	Loop  int
	E     *Expr
	Exprs []*Expr // assigns targets
	Src   string
	// lemma / known-finding class splitting
}

type SpecFn struct {
	Ret    string
	Name   string
	Params []string
	Decr   *Expr
	Body   *Expr
}

type Contract struct {
	Key      string // fully qualified function key
	Schema   string // schema name this came from ("" for hand-written)
	Mode     string // "unbounded" or "rank"
	RankVars []*Expr
	RankEq   []*Expr // additional expressions whose value is fixed to the rank
	Trusted  bool
	Pure     bool
	Inline   bool
	Clauses  []*Clause
	Props    []string // property ids this contract serves
	Lets     []letDef
	Binds    []bindDef
	Fuel     int
	File     string
	Line     int
	Params   []string // for trusted external functions: parameter names
	Results  []string
	NoPanic  bool // generate safety obligations (default true)
	Config   map[string]string
}

type bindDef struct {
	Name string
	E    *Expr
	Cond *Expr
}

type letDef struct {
	Name string
	E    *Expr
}

type Schema struct {
	Name    string
	Pattern string // e.g. gorgonia.org/tensor/internal/execution.Vec{Op}{T}
	Where   map[string][]string
	Lines   []string // raw clause lines with {X} placeholders
	Props   []string
	File    string
	Line    int
}

type Lemma struct {
	Name   string
	Ranks  [2]int // inclusive range, [-1,-1] if none
	Params []string
	E      *Expr
	Props  []string
	Src    string
}

type Witness struct {
	Iface, Type string
	Fields      map[string]string // method -> field
}

type SpecDB struct {
	Fns       map[string]*SpecFn
	Contracts map[string]*Contract
	Schemas   []*Schema
	Lemmas    []*Lemma
	Tables    map[string]map[string]string // table name -> key -> value (for schema substitution)
	UFuns     map[string]string            // uninterpreted spec functions: name -> result sort
	Witnesses map[string]*Witness
	Order     []string
}

var clauseKW = map[string]bool{"requires": true, "ensures": true, "assigns": true, "loop": true, "mode": true,
	"trusted": true, "pure": true, "inline": true, "props": true, "let": true, "fuel": true, "params": true, "results": true, "where": true, "config": true, "cases": true, "binds": true}
var blockKW = map[string]bool{"spec": true, "func": true, "schema": true, "lemma": true, "table": true, "ufun": true, "witness": true}

// readContractLines extracts //@ lines (also "// @") from a Go file.
func readContractLines(path string) ([]string, []int, error) {
	data, err := os.ReadFile(path)
	if err != nil {
		return nil, nil, err
	}
	var out []string
	var nums []int
	for i, ln := range strings.Split(string(data), "\n") {
		t := strings.TrimLeft(ln, " \t")
		var rest string
		switch {
		case strings.HasPrefix(t, "//@"):
			rest = t[3:]
		case strings.HasPrefix(t, "// @"):
			rest = t[4:]
		default:
			continue
		}
		if idx := strings.Index(rest, "//"); idx >= 0 {
			rest = rest[:idx]
		}
		if strings.TrimSpace(rest) == "" {
			continue
		}
		out = append(out, rest)
		nums = append(nums, i+1)
	}
	return out, nums, nil
}

func firstWord(s string) (string, string) {
	s = strings.TrimSpace(s)
	i := strings.IndexAny(s, " \t")
	if i < 0 {
		return s, ""
	}
	return s[:i], strings.TrimSpace(s[i+1:])
}

// joinContinuations merges lines that do not begin with a keyword into the previous line.
func joinContinuations(lines []string, nums []int) ([]string, []int) {
	var out []string
	var on []int
	for i, ln := range lines {
		w, _ := firstWord(ln)
		if clauseKW[w] || blockKW[w] || len(out) == 0 {
			out = append(out, strings.TrimSpace(ln))
			on = append(on, nums[i])
		} else {
			out[len(out)-1] += " " + strings.TrimSpace(ln)
		}
	}
	return out, on
}

func NewSpecDB() *SpecDB {
	return &SpecDB{Fns: map[string]*SpecFn{}, Contracts: map[string]*Contract{}, Tables: map[string]map[string]string{}, UFuns: map[string]string{}, Witnesses: map[string]*Witness{}}
}

func (db *SpecDB) LoadFile(path string) error {
	raw, nums, err := readContractLines(path)
	if err != nil {
		return err
	}
	lines, lnums := joinContinuations(raw, nums)
	var cur *Contract
	var curSchema *Schema
	for i, ln := range lines {
		w, rest := firstWord(ln)
		loc := fmt.Sprintf("%s:%d", path, lnums[i])
		switch w {
		case "spec":
			cur, curSchema = nil, nil
			if err := db.parseSpecFn(rest); err != nil {
				return fmt.Errorf("%s: %v", loc, err)
			}
		case "ufun":
			cur, curSchema = nil, nil
			// ufun name(p1, p2) int|bool : uninterpreted specification function
			m := ufunRe.FindStringSubmatch(rest)
			if m == nil {
				return fmt.Errorf("%s: bad ufun %q", loc, rest)
			}
			db.UFuns[m[1]] = m[3]
		case "witness":
			cur, curSchema = nil, nil
			// witness <iface> <concrete struct type> Method=field ... : how replay builds an interface
			// value whose pure methods return the values of the model
			f := strings.Fields(rest)
			if len(f) < 3 {
				return fmt.Errorf("%s: bad witness", loc)
			}
			wt := &Witness{Iface: f[0], Type: f[1], Fields: map[string]string{}}
			for _, kv := range f[2:] {
				p := strings.SplitN(kv, "=", 2)
				if len(p) == 2 {
					wt.Fields[p[0]] = p[1]
				}
			}
			db.Witnesses[expandKey(f[0])] = wt
		case "table":
			cur, curSchema = nil, nil
			// table name k=v; k=v; ...
			name, body := firstWord(rest)
			tb := db.Tables[name]
			if tb == nil {
				tb = map[string]string{}
				db.Tables[name] = tb
			}
			for _, kv := range strings.Split(body, ";;") {
				kv = strings.TrimSpace(kv)
				if kv == "" {
					continue
				}
				j := strings.Index(kv, "=>")
				if j < 0 {
					return fmt.Errorf("%s: bad table entry %q", loc, kv)
				}
				tb[strings.TrimSpace(kv[:j])] = strings.TrimSpace(kv[j+2:])
			}
		case "func":
			curSchema = nil
			key, _ := firstWord(rest)
			cur = &Contract{Key: key, Mode: "unbounded", File: path, Line: lnums[i], NoPanic: true, Config: map[string]string{}}
			if _, dup := db.Contracts[key]; dup {
				return fmt.Errorf("%s: duplicate contract for %s", loc, key)
			}
			db.Contracts[key] = cur
			db.Order = append(db.Order, key)
		case "schema":
			cur = nil
			name, r2 := firstWord(rest)
			w2, pat := firstWord(r2)
			if w2 != "match" {
				return fmt.Errorf("%s: schema needs 'match'", loc)
			}
			curSchema = &Schema{Name: name, Pattern: pat, Where: map[string][]string{}, File: path, Line: lnums[i]}
			db.Schemas = append(db.Schemas, curSchema)
		case "lemma":
			cur, curSchema = nil, nil
			if err := db.parseLemma(rest); err != nil {
				return fmt.Errorf("%s: %v", loc, err)
			}
		default:
			if curSchema != nil {
				if w == "where" {
					// where Op in Add Sub Mul
					v, r := firstWord(rest)
					in, vals := firstWord(r)
					if in != "in" {
						return fmt.Errorf("%s: where X in a b c", loc)
					}
					curSchema.Where[v] = strings.Fields(vals)
				} else if w == "props" {
					curSchema.Props = strings.Fields(rest)
				} else {
					curSchema.Lines = append(curSchema.Lines, ln)
				}
				continue
			}
			if cur == nil {
				return fmt.Errorf("%s: clause outside a block: %s", loc, ln)
			}
			if err := parseClauseLine(cur, w, rest); err != nil {
				return fmt.Errorf("%s: %v", loc, err)
			}
		}
	}
	return nil
}

var ufunRe = regexp.MustCompile(`^([A-Za-z_][A-Za-z0-9_]*)\s*\(([^)]*)\)\s*([A-Za-z0-9_.]+)\s*$`)

var labelRe = regexp.MustCompile(`^\[([A-Za-z0-9_.\-]+)\]\s*(.*)$`)

func parseClauseLine(c *Contract, w, rest string) error {
	switch w {
	case "trusted":
		c.Trusted = true
	case "pure":
		c.Pure = true
	case "inline":
		c.Inline = true
	case "props":
		c.Props = append(c.Props, strings.Fields(rest)...)
	case "params":
		c.Params = strings.Fields(rest)
	case "results":
		c.Results = strings.Fields(rest)
	case "fuel":
		n, err := strconv.Atoi(strings.TrimSpace(rest))
		if err != nil {
			return err
		}
		c.Fuel = n
	case "config":
		k, v := firstWord(rest)
		c.Config[k] = v
	case "cases":
		// cases <expr> : v1, v2, ...   -- verify the function once per value of <expr> (proof by cases)
		i := strings.Index(rest, ":")
		if i < 0 {
			return fmt.Errorf("cases <expr> : v1, v2, ...")
		}
		e, err := ParseExpr(rest[:i])
		if err != nil {
			return err
		}
		cl := &Clause{Kind: "cases", E: e, Src: rest}
		for _, s := range splitTop(rest[i+1:]) {
			v, err := ParseExpr(s)
			if err != nil {
				return err
			}
			cl.Exprs = append(cl.Exprs, v)
		}
		c.Clauses = append(c.Clauses, cl)
	case "mode":
		m, r := firstWord(rest)
		switch m {
		case "unbounded":
			c.Mode = "unbounded"
		case "rank":
			c.Mode = "rank"
			// rank e1, e2 ; eq e3, e4
			parts := strings.SplitN(r, ";", 2)
			for _, s := range splitTop(parts[0]) {
				e, err := ParseExpr(s)
				if err != nil {
					return err
				}
				c.RankVars = append(c.RankVars, e)
			}
			if len(parts) > 1 {
				for _, s := range splitTop(parts[1]) {
					e, err := ParseExpr(s)
					if err != nil {
						return err
					}
					c.RankEq = append(c.RankEq, e)
				}
			}
		default:
			return fmt.Errorf("unknown mode %q", m)
		}
	case "binds":
		// binds <result> = <pointer expression> [when <condition>]: the result IS that location (used for
		// results that point into another object, which a fresh reference cannot represent)
		name, r := firstWord(rest)
		r = strings.TrimSpace(strings.TrimPrefix(strings.TrimSpace(r), "="))
		var cond *Expr
		if i := strings.Index(r, " when "); i >= 0 {
			ce, err := ParseExpr(strings.TrimSpace(r[i+6:]))
			if err != nil {
				return err
			}
			cond = ce
			r = strings.TrimSpace(r[:i])
		}
		e, err := ParseExpr(r)
		if err != nil {
			return err
		}
		c.Binds = append(c.Binds, bindDef{name, e, cond})
	case "let":
		name, r := firstWord(rest)
		r = strings.TrimSpace(strings.TrimPrefix(strings.TrimSpace(r), "="))
		e, err := ParseExpr(r)
		if err != nil {
			return err
		}
		c.Lets = append(c.Lets, letDef{name, e})
	case "requires", "ensures":
		cl := &Clause{Kind: w, Src: rest}
		if m := labelRe.FindStringSubmatch(rest); m != nil {
			cl.Label, rest = m[1], m[2]
		} else {
			cl.Label = fmt.Sprintf("%s%d", w[:3], len(c.Clauses))
		}
		e, err := ParseExpr(rest)
		if err != nil {
			return err
		}
		cl.E = e
		c.Clauses = append(c.Clauses, cl)
	case "assigns":
		cl := &Clause{Kind: "assigns", Src: rest}
		if strings.TrimSpace(rest) != "nothing" {
			for _, s := range splitTop(rest) {
				e, err := ParseExpr(s)
				if err != nil {
					return err
				}
				cl.Exprs = append(cl.Exprs, e)
			}
		}
		c.Clauses = append(c.Clauses, cl)
	case "loop":
		ns, r := firstWord(rest)
		n, err := strconv.Atoi(ns)
		if err != nil {
			return fmt.Errorf("loop ordinal: %v", err)
		}
		kind, r2 := firstWord(r)
		cl := &Clause{Kind: kind, Loop: n, Src: r2}
		switch kind {
		case "invariant", "step", "decreases", "exit":
		case "split":
			// loop N split <var> <lo> <hi> : case split on the value of a loop variable (inclusive range)
			f := strings.Fields(r2)
			if len(f) < 3 {
				return fmt.Errorf("loop split: want <var> <lo> <hi>")
			}
			cl.Label = f[0]
			lo, err := ParseExpr(f[1])
			if err != nil {
				return err
			}
			hi, err := ParseExpr(strings.Join(f[2:], " "))
			if err != nil {
				return err
			}
			cl.Exprs = []*Expr{lo, hi}
			c.Clauses = append(c.Clauses, cl)
			return nil
		case "unroll":
			cl.E = &Expr{Op: "bool", Name: "true"}
			c.Clauses = append(c.Clauses, cl)
			return nil
		default:
			return fmt.Errorf("unknown loop clause %q", kind)
		}
		if m := labelRe.FindStringSubmatch(r2); m != nil {
			cl.Label, r2 = m[1], m[2]
		} else {
			cl.Label = fmt.Sprintf("%s%d", kind[:3], len(c.Clauses))
		}
		e, err := ParseExpr(r2)
		if err != nil {
			return err
		}
		cl.E = e
		c.Clauses = append(c.Clauses, cl)
	default:
		return fmt.Errorf("unknown clause keyword %q", w)
	}
	return nil
}

// splitTop splits on commas not nested in parens/brackets.
func splitTop(s string) []string {
	var out []string
	depth := 0
	start := 0
	for i, c := range s {
		switch c {
		case '(', '[':
			depth++
		case ')', ']':
			depth--
		case ',':
			if depth == 0 {
				out = append(out, strings.TrimSpace(s[start:i]))
				start = i + 1
			}
		}
	}
	if strings.TrimSpace(s[start:]) != "" {
		out = append(out, strings.TrimSpace(s[start:]))
	}
	return out
}

var specHeadRe = regexp.MustCompile(`^([A-Za-z_][A-Za-z0-9_]*)\s*\(([^)]*)\)\s*(int|bool|like\s+[A-Za-z_][A-Za-z0-9_]*)?\s*(decreases\s+(.*?))?\s=\s(.*)$`)

func (db *SpecDB) parseSpecFn(s string) error {
	m := specHeadRe.FindStringSubmatch(s)
	if m == nil {
		return fmt.Errorf("bad spec function: %q", s)
	}
	f := &SpecFn{Name: m[1]}
	for _, p := range strings.Split(m[2], ",") {
		p = strings.TrimSpace(p)
		if p == "" {
			continue
		}
		f.Params = append(f.Params, strings.Fields(p)[0])
	}
	f.Ret = m[3]
	if m[5] != "" {
		e, err := ParseExpr(m[5])
		if err != nil {
			return err
		}
		f.Decr = e
	}
	body, err := ParseExpr(m[6])
	if err != nil {
		return err
	}
	f.Body = body
	if _, dup := db.Fns[f.Name]; dup {
		return fmt.Errorf("duplicate spec function %s", f.Name)
	}
	db.Fns[f.Name] = f
	return nil
}

var lemmaHeadRe = regexp.MustCompile(`^([A-Za-z_][A-Za-z0-9_]*)\s*(\[rank\s+(\d+)\.\.(\d+)\])?\s*(\(([^)]*)\))?\s*(props\s+([A-Z0-9 ]+?))?\s*:\s*(.*)$`)

func (db *SpecDB) parseLemma(s string) error {
	m := lemmaHeadRe.FindStringSubmatch(s)
	if m == nil {
		return fmt.Errorf("bad lemma: %q", s)
	}
	l := &Lemma{Name: m[1], Ranks: [2]int{-1, -1}, Src: m[9]}
	if m[3] != "" {
		l.Ranks[0], _ = strconv.Atoi(m[3])
		l.Ranks[1], _ = strconv.Atoi(m[4])
	}
	for _, p := range strings.Split(m[6], ",") {
		p = strings.TrimSpace(p)
		if p != "" {
			l.Params = append(l.Params, p)
		}
	}
	if m[8] != "" {
		l.Props = strings.Fields(m[8])
	}
	e, err := ParseExpr(m[9])
	if err != nil {
		return err
	}
	l.E = e
	db.Lemmas = append(db.Lemmas, l)
	return nil
}

// ---------- schema instantiation ----------

var placeholderRe = regexp.MustCompile(`\{([A-Za-z][A-Za-z0-9]*)\}`)

// schemaRegex turns "pkg.Vec{Op}{T}" into a regexp with named groups; each variable
// with a where-list matches only those alternatives, others match [A-Za-z0-9]*.
func (s *Schema) regex() (*regexp.Regexp, []string) {
	var vars []string
	pat := regexp.QuoteMeta(s.Pattern)
	pat = strings.ReplaceAll(pat, `\{`, "{")
	pat = strings.ReplaceAll(pat, `\}`, "}")
	pat = placeholderRe.ReplaceAllStringFunc(pat, func(m string) string {
		v := m[1 : len(m)-1]
		vars = append(vars, v)
		if alts, ok := s.Where[v]; ok {
			sorted := append([]string(nil), alts...)
			sort.Slice(sorted, func(i, j int) bool { return len(sorted[i]) > len(sorted[j]) })
			return "(" + strings.Join(sorted, "|") + ")"
		}
		return "([A-Za-z0-9]*?)"
	})
	return regexp.MustCompile("^" + pat + "$"), vars
}

// Instantiate creates a contract for key if the schema matches.
func (db *SpecDB) Instantiate(s *Schema, key string, extra map[string]string) (*Contract, map[string]string, error) {
	re, vars := s.regex()
	m := re.FindStringSubmatch(key)
	if m == nil {
		return nil, nil, nil
	}
	sub := map[string]string{}
	for i, v := range vars {
		sub[v] = m[i+1]
	}
	for k, v := range extra {
		if _, isPat := sub[k]; !isPat {
			sub[k] = v
		}
	}
	for v, alts := range s.Where {
		isPat := false
		for _, pv := range vars {
			if pv == v {
				isPat = true
			}
		}
		if isPat {
			continue
		}
		ok := false
		for _, a := range alts {
			if sub[v] == a {
				ok = true
			}
		}
		if !ok {
			return nil, nil, nil
		}
	}
	c := &Contract{Key: key, Schema: s.Name, Mode: "unbounded", File: s.File, Line: s.Line, NoPanic: true, Props: s.Props, Config: map[string]string{}}
	for _, ln := range s.Lines {
		// table lookups: {Table[Key]} after placeholder substitution
		var subErr error
		line := substPlaceholders(ln, sub, db.Tables, &subErr)
		if subErr != nil {
			return nil, sub, subErr
		}
		w, rest := firstWord(line)
		if err := parseClauseLine(c, w, rest); err != nil {
			return nil, sub, fmt.Errorf("schema %s for %s: %v (line %q)", s.Name, key, err, line)
		}
	}
	return c, sub, nil
}

var tableRefRe = regexp.MustCompile(`\{([A-Za-z][A-Za-z0-9]*)\[([^\]\{\}]*)\]\}`)

func substPlaceholders(ln string, sub map[string]string, tables map[string]map[string]string, errp *error) string {
	for iter := 0; iter < 4; iter++ {
		ln = placeholderRe.ReplaceAllStringFunc(ln, func(m string) string {
			if v, ok := sub[m[1:len(m)-1]]; ok {
				return v
			}
			return m
		})
		changed := false
		ln = tableRefRe.ReplaceAllStringFunc(ln, func(m string) string {
			mm := tableRefRe.FindStringSubmatch(m)
			tb := tables[mm[1]]
			if tb == nil {
				*errp = fmt.Errorf("unknown table %s", mm[1])
				return m
			}
			v, ok := tb[mm[2]]
			if !ok {
				if i := strings.Index(mm[2], "."); i >= 0 {
					v, ok = tb[mm[2][:i]]
				}
			}
			if !ok {
				v, ok = tb["*"]
			}
			if !ok {
				*errp = fmt.Errorf("table %s has no entry %q", mm[1], mm[2])
				return m
			}
			changed = true
			return v
		})
		if !changed {
			break
		}
	}
	return ln
}
