package main

import (
	"encoding/json"
	"flag"
	"fmt"
	"os"
	"path/filepath"
	"regexp"
	"sort"
	"strconv"
	"strings"
	"time"
)

// Claims: the obligations that discharge on the unchanged tree (committed under /verif/claims).
type Claims struct {
	Property    string   `json:"property"`
	Tags        string   `json:"tags"`
	Obligations []string `json:"obligations"`
}

type KnownFinding struct {
	Kind     string // finding / fixed
	Property string
	Pattern  string // obligation name pattern (may contain *)
	Text     string
	re       *regexp.Regexp
	Commit   string
}

func loadKnownFindings(path string) ([]*KnownFinding, error) {
	data, err := os.ReadFile(path)
	if err != nil {
		if os.IsNotExist(err) {
			return nil, nil
		}
		return nil, err
	}
	var out []*KnownFinding
	for _, ln := range strings.Split(string(data), "\n") {
		ln = strings.TrimSpace(ln)
		if ln == "" || strings.HasPrefix(ln, "#") {
			continue
		}
		kf := &KnownFinding{}
		head := ln
		if i := strings.Index(ln, "::"); i >= 0 {
			head, kf.Text = strings.TrimSpace(ln[:i]), strings.TrimSpace(ln[i+2:])
		}
		fields := strings.Fields(head)
		if len(fields) == 0 {
			continue
		}
		kf.Kind = strings.TrimSuffix(fields[0], ":")
		for _, f := range fields[1:] {
			switch {
			case strings.HasPrefix(f, "property="):
				kf.Property = f[len("property="):]
			case strings.HasPrefix(f, "obligation="):
				kf.Pattern = f[len("obligation="):]
			case strings.HasPrefix(f, "case="):
				kf.Pattern = f[len("case="):]
			default:
				if kf.Kind == "fixed" && kf.Commit == "" {
					kf.Commit = f
				}
			}
		}
		if kf.Pattern != "" {
			kf.re = regexp.MustCompile("^" + strings.ReplaceAll(regexp.QuoteMeta(kf.Pattern), `\*`, `.*`) + "$")
		}
		out = append(out, kf)
	}
	return out, nil
}

type Evidence struct {
	PropertyID  string                 `json:"property_id"`
	Tier        string                 `json:"tier"`
	Seed        int                    `json:"seed"`
	Level       string                 `json:"level"`
	Coverage    map[string]interface{} `json:"coverage"`
	Assumptions []string               `json:"assumptions"`
	WallS       float64                `json:"wall_s"`
	Violations  int                    `json:"violations"`
}

var globalAssumptions = []string{
	"index arithmetic on Go int is mathematical (no overflow modelled)",
	"element types other than int are abstract sorts; Go operators and math routines on them are uninterpreted symbols named after the operator/routine (sound for 'applies the right operator to the right operands'; no floating-point or wrap-around reasoning)",
	"error values are abstracted to their dynamic type tag; message contents are not modelled",
	"go/ssa (x/tools v0.29.0, naive form) is a faithful translation of the Go source; compiler, runtime and hardware are trusted",
	"nil-pointer dereference is not checked; pointer receivers and pointer parameters are assumed non-nil",
	"function values passed to kernels are pure and total (uninterpreted application)",
	"package-level reflect.Type variables are never reassigned and denote pairwise distinct types",
	"induction from one-step (loop step / iterator Next) contracts to whole sequences is a meta-argument outside the solver",
	"genlib2 templates are not verified, only their current output",
	"a type of a fixed-size basic reflect.Kind has that kind's size on gc/amd64; type sizes are positive",
	"a typed view ([]T over a storage.Header) aliases the byte store element-wise, and typed views of different element types over one header are kept as separate arrays (byte-level writes are therefore trusted contracts stated over the typed views)",
	"interface equality and comparison of Dtype structs are identity of dynamic type and payload reference",
	"contracts marked trusted are assumed, their bodies are not checked (listed per run under coverage.trusted_base)",
	"iterators: an iterator obtained from a tensor starts at position 0, yields only offsets inside that tensor's storage and reports exhaustion with a NoOpError; a FlatIterator yields exactly the offset sequence of its access pattern (trusted link between the abstract stream and C05's odometer contracts)",
}

// extraTagSets lists, per property, the additional build configurations under which the functions
// under contract are verified again (C20: the pure-Go divmod is only compiled with noasm).
var extraTagSets = map[string][]string{"C20": {"noasm"}}

func cmdCheck(args []string) {
	fs := flag.NewFlagSet("check", flag.ExitOnError)
	repo := fs.String("repo", "/repo", "repository root")
	verif := fs.String("verif", "/verif", "verif root")
	prop := fs.String("property", "", "property id")
	tier := fs.String("tier", "quick", "quick|thorough")
	update := fs.Bool("update-claims", false, "rewrite the claims file from this run")
	level := fs.String("level", "proof", "evidence level")
	bounded := fs.String("bounded", "", "JSON file with the result of the bounded stand-ins (merged into evidence)")
	fs.Parse(args)
	if *prop == "" {
		fmt.Fprintln(os.Stderr, "need -property")
		os.Exit(2)
	}
	seed := 0
	if s := os.Getenv("VERIF_SEED"); s != "" {
		seed, _ = strconv.Atoi(s)
	}
	t0 := time.Now()
	maxRank, timeout := 4, 10
	if *tier == "thorough" {
		maxRank, timeout = 5, 60
	}
	tagSets := []string{"verif"}
	P, err := LoadProg(*repo, tagSets[0])
	if err != nil {
		fmt.Printf("govc: cannot load %s: %v\n", *repo, err)
		os.Exit(2)
	}
	if err := P.LoadContracts(); err != nil {
		fmt.Printf("govc: contracts: %v\n", err)
		os.Exit(2)
	}
	loadS := time.Since(t0).Seconds()
	solv := NewSolvers(time.Duration(timeout)*time.Second, false)
	defer solv.Close()

	if kf, err := loadKnownFindings(filepath.Join(*verif, "known_findings.txt")); err == nil {
		KnownFailing = func(name string) bool {
			for _, k := range kf {
				if k.Kind == "finding" && k.Property == *prop && k.re != nil && k.re.MatchString(name) {
					return true
				}
			}
			return false
		}
	}
	progs := map[string]*Prog{}
	keys := P.keysForProperty(*prop)
	results := P.VerifyAll(keys, VerifyOpts{MaxRank: maxRank, Thorough: *tier == "thorough"}, solv)
	// alternative build configurations: the same contracts are checked against the bodies selected
	// by the other tag sets; their obligation names carry the tag as a prefix ("noasm:tensor.divmod#...")
	for _, extra := range extraTagSets[*prop] {
		P2, err := LoadProg(*repo, "verif,"+extra)
		if err != nil {
			fmt.Printf("govc: cannot load %s with tags %s: %v\n", *repo, extra, err)
			os.Exit(2)
		}
		if err := P2.LoadContracts(); err != nil {
			fmt.Printf("govc: contracts (%s): %v\n", extra, err)
			os.Exit(2)
		}
		tagSets = append(tagSets, "verif,"+extra)
		P2.namePrefix = extra + ":"
		progs[extra+":"] = P2
		for _, r := range P2.VerifyAll(P2.keysForProperty(*prop), VerifyOpts{MaxRank: maxRank, Thorough: *tier == "thorough"}, solv) {
			for _, o := range r.Obls {
				o.Name = extra + ":" + o.Name
			}
			r.Key = extra + ":" + shortKey(r.Key)
			results = append(results, r)
		}
	}
	lemmaRes := P.VerifyLemmas(*prop, maxRank, solv)

	// aggregate
	var aggs []*AggObl
	aggByName := map[string]*AggObl{}
	var unsupported []string
	funcsUnder := []map[string]interface{}{}
	totalQueries := 0
	var trusted []string
	for _, r := range results {
		if r.Trusted {
			trusted = append(trusted, shortKey(r.Key))
			continue
		}
		totalQueries += len(r.Obls)
		for _, a := range aggregate(r.Obls) {
			aggs = append(aggs, a)
			aggByName[a.Name] = a
		}
		fu := map[string]interface{}{"func": shortKey(r.Key), "mode": r.Mode, "paths": r.Paths, "file": r.File}
		if r.Schema != "" {
			fu["schema"] = r.Schema
		}
		if r.Mode == "rank" {
			fu["ranks"] = fmt.Sprintf("0..%d", r.MaxRank)
		}
		if len(r.Used) > 0 {
			fu["callee_contracts"] = r.Used
		}
		if len(r.Inlined) > 0 {
			fu["inlined_callees"] = r.Inlined
		}
		if r.Unsupported != "" {
			fu["unsupported"] = r.Unsupported
			unsupported = append(unsupported, shortKey(r.Key)+": "+r.Unsupported)
		}
		if c := P.ContractFor(r.Key); c != nil {
			var relaxed []string
			if c.Config["panics"] == "allowed" {
				relaxed = append(relaxed, "explicit panic() calls end the path instead of being obligations")
			}
			if c.Config["bounds"] == "unchecked" {
				relaxed = append(relaxed, "index and slice bounds are not obligations (the contract speaks about executions that do not panic)")
			}
			if c.Config["divzero"] == "off" {
				relaxed = append(relaxed, "integer division by zero is not an obligation")
			}
			if c.Config["frame"] == "any" {
				relaxed = append(relaxed, "no frame: the function may write anything (callers havoc the whole heap)")
			}
			if len(relaxed) > 0 {
				fu["relaxed"] = relaxed
			}
		}
		funcsUnder = append(funcsUnder, fu)
	}
	for _, a := range lemmaRes {
		aggs = append(aggs, a)
		aggByName[a.Name] = a
	}

	claimsPath := filepath.Join(*verif, "claims", *prop+".json")
	if *update {
		var names []string
		for _, a := range aggs {
			if a.Status == "discharged" && !strings.Contains(a.Name, "#vacuity:") {
				names = append(names, a.Name)
			}
		}
		sort.Strings(names)
		os.MkdirAll(filepath.Dir(claimsPath), 0o755)
		data, _ := json.MarshalIndent(Claims{Property: *prop, Tags: strings.Join(tagSets, " | "), Obligations: names}, "", " ")
		os.WriteFile(claimsPath, append(data, '\n'), 0o644)
		fmt.Printf("wrote %d claims to %s\n", len(names), claimsPath)
	}
	var claims Claims
	if data, err := os.ReadFile(claimsPath); err == nil {
		json.Unmarshal(data, &claims)
	}
	known, err := loadKnownFindings(filepath.Join(*verif, "known_findings.txt"))
	if err != nil {
		fmt.Println("govc: known_findings:", err)
		os.Exit(2)
	}
	isKnown := func(name string) *KnownFinding {
		for _, k := range known {
			if k.Kind == "finding" && k.Property == *prop && k.re != nil && k.re.MatchString(name) {
				return k
			}
		}
		return nil
	}

	replayDir := filepath.Join(*verif, "replays", *prop)
	os.MkdirAll(replayDir, 0o755)
	violations := 0
	var violationLines, knownLines []string
	claimed := map[string]bool{}
	discharged := 0
	knownHit := map[*KnownFinding]int{}
	replays := 0
	reportViolation := func(a *AggObl, reason string) {
		violations++
		file := filepath.Join(replayDir, sanitize(a.Name)+".json")
		if replays >= 4 && a.Failing != nil {
			// replaying is expensive (one solver call per input leaf, then go test): the first few
			// violations get a replay attempt, the others carry the model only
			a.Failing.Result = "sat-not-replayed"
		}
		replays++
		PR := P
		for pre, p2 := range progs {
			if strings.HasPrefix(a.Name, pre) {
				PR = p2
			}
		}
		rep := PR.writeReplay(file, *prop, a, reason, solv)
		line := fmt.Sprintf("VIOLATION property=%s replay=%s obligation=%s %s", *prop, file, a.Name, reason)
		if !rep {
			line += " no-failing-input-found"
		}
		violationLines = append(violationLines, line)
	}
	for _, n := range claims.Obligations {
		claimed[n] = true
		a := aggByName[n]
		switch {
		case a == nil:
			if isKnown(n) != nil {
				continue
			}
			reportViolation(&AggObl{Name: n, Status: "missing"}, "reason=obligation-not-generated (function renamed, moved out of the verified subset, or contract no longer matches)")
		case a.Status == "discharged":
			discharged++
		case a.Status == "failed":
			if k := isKnown(n); k != nil {
				knownHit[k]++
				continue
			}
			reportViolation(a, "reason=counterexample")
		default:
			if k := isKnown(n); k != nil {
				knownHit[k]++
				continue
			}
			reportViolation(a, "reason="+a.Status+" (discharged on the unchanged tree, not any more)")
		}
	}
	// obligations never claimed: failures there are violations only if not listed as known findings
	var notClaimed []string
	for _, a := range aggs {
		if claimed[a.Name] || strings.Contains(a.Name, "#vacuity:") {
			if strings.Contains(a.Name, "#vacuity:") && a.Status == "vacuous" {
				reportViolation(a, "reason=vacuous-contract (precondition or path condition unsatisfiable)")
			}
			continue
		}
		if a.Status == "discharged" {
			notClaimed = append(notClaimed, a.Name+" (discharged, not in claims file)")
			continue
		}
		if k := isKnown(a.Name); k != nil {
			knownHit[k]++
			continue
		}
		if a.Status == "failed" {
			// a failing obligation that is neither claimed nor a known finding: a new violation
			reportViolation(a, "reason=counterexample (unclaimed obligation)")
			continue
		}
		notClaimed = append(notClaimed, a.Name+" ("+a.Status+")")
	}
	for _, k := range known {
		if k.Kind == "finding" && k.Property == *prop && k.re != nil {
			if knownHit[k] > 0 {
				knownLines = append(knownLines, fmt.Sprintf("KNOWN-FINDING: property=%s %s :: %s (%d obligations)", *prop, k.Pattern, k.Text, knownHit[k]))
			}
		}
	}

	// bounded stand-ins (produced by the bounded harness, merged here)
	var boundedInfo interface{}
	if *bounded != "" {
		if data, err := os.ReadFile(*bounded); err == nil {
			var bi map[string]interface{}
			if json.Unmarshal(data, &bi) == nil {
				boundedInfo = bi
				if vs, ok := bi["violations"].([]interface{}); ok {
					for _, v := range vs {
						violations++
						violationLines = append(violationLines, fmt.Sprint(v))
					}
				}
				if ks, ok := bi["known"].([]interface{}); ok {
					for _, v := range ks {
						knownLines = append(knownLines, fmt.Sprint(v))
					}
				}
			}
		}
	}

	// evidence
	bySolver := map[string]interface{}{}
	for n, s := range solv.Stats {
		bySolver[n] = s
	}
	var samples []interface{}
	for _, r := range results {
		for _, o := range r.Obls {
			if len(samples) < 4 && o.Query != "" && !o.Canary && o.Result == "unsat" && len(o.Query) < 6000 && (len(samples) == 0 || o.Kind == "ensures") {
				samples = append(samples, map[string]interface{}{"obligation": o.Name, "rank": o.Rank, "path": o.Path, "verdict": o.Result, "solver": o.Solver, "smtlib": o.Query})
			}
		}
	}
	if len(samples) == 0 {
		// every query of this run is long: show the shortest discharged one, cut to a readable size
		var best *Obligation
		for _, r := range results {
			for _, o := range r.Obls {
				if o.Query != "" && !o.Canary && o.Result == "unsat" && (best == nil || len(o.Query) < len(best.Query)) {
					best = o
				}
			}
		}
		if best != nil {
			q := best.Query
			if len(q) > 12000 {
				q = q[:12000] + "\n; ... (truncated)"
			}
			samples = append(samples, map[string]interface{}{"obligation": best.Name, "rank": best.Rank, "path": best.Path, "verdict": best.Result, "solver": best.Solver, "smtlib": q})
		} else {
			samples = append(samples, map[string]interface{}{"note": "no solver query in this run (all obligations discharged syntactically)"})
		}
	}
	schemaCount := map[string]int{}
	for _, r := range results {
		if r.Schema != "" {
			schemaCount[r.Schema]++
		}
	}
	var undec, failed []string
	for _, a := range aggs {
		switch a.Status {
		case "failed":
			failed = append(failed, a.Name)
		case "undecided":
			undec = append(undec, a.Name)
		}
	}
	cov := map[string]interface{}{
		"obligations":              len(claims.Obligations),
		"discharged":               discharged,
		"checker_cmd":              fmt.Sprintf("govc check -property %s -tier %s (z3-new 5.1.0, cvc5 1.0.3, z3 4.8.12)", *prop, *tier),
		"trusted_base":             append(trustedClosure(P, trusted, results), "go/ssa v0.29.0 naive form", "z3 / cvc5"),
		"functions_under_contract": funcsUnder,
		"functions_count":          len(funcsUnder),
		"smt_queries":              totalQueries,
		"smt_queries_unique":       solv.Unique,
		"by_solver":                bySolver,
		"schemas":                  schemaCount,
		"failed_obligations":       failed,
		"undecided_obligations":    undec,
		"not_claimed":              notClaimed,
		"unsupported":              unsupported,
		"known_findings":           knownLines,
		"samples":                  samples,
		"rank_bound":               maxRank,
		"load_s":                   loadS,
		"dropped_by_translation":   []string{"int overflow", "error message contents", "GC/finalizers", "goroutines/channels (unsupported)", "assembly (trusted stubs)", "map iteration order", "reflection beyond reflect.Type identity/Size"},
	}
	if boundedInfo != nil {
		cov["bounded"] = boundedInfo
	}
	if *prop == "C17" {
		cov["generated_file_coverage"] = P.fileCoverage(results, aggByName)
	}
	if *level == "other" {
		cov["explanation"] = "partial claim: deductive obligations over the real SSA, all discharged, for the functions listed under functions_under_contract only; the parts of the property that live in code not under contract (see MANIFEST level text and DESIGN.md 0.4) are not decided by this check. No bounded or run-time checking is involved."
	}
	ev := Evidence{PropertyID: *prop, Tier: *tier, Seed: seed, Level: *level, Coverage: cov, Assumptions: globalAssumptions,
		WallS: time.Since(t0).Seconds(), Violations: violations}
	os.MkdirAll(filepath.Join(*verif, "evidence"), 0o755)
	data, _ := json.MarshalIndent(ev, "", " ")
	os.WriteFile(filepath.Join(*verif, "evidence", *prop+".json"), append(data, '\n'), 0o644)

	fmt.Printf("property %s tier %s: %d functions under contract, %d claimed obligations, %d discharged, %d queries (%d unique), %.1fs\n",
		*prop, *tier, len(funcsUnder), len(claims.Obligations), discharged, totalQueries, solv.Unique, time.Since(t0).Seconds())
	for _, u := range unsupported {
		fmt.Println("UNSUPPORTED:", u)
	}
	for _, l := range knownLines {
		fmt.Println(l)
	}
	for _, l := range violationLines {
		fmt.Println(l)
	}
	if violations > 0 {
		solv.Close() // os.Exit skips the deferred clean-up of the solver scratch directory
		os.Exit(1)
	}
}

// keysForProperty lists every function whose contract (hand-written or schema instance) serves the property.
func (P *Prog) keysForProperty(prop string) []string {
	var keys []string
	seen := map[string]bool{}
	var all []string
	for k := range P.funcs {
		if strings.HasPrefix(k, "gorgonia.org/") {
			all = append(all, k)
		}
	}
	sort.Strings(all)
	for _, k := range all {
		c := P.ContractFor(k)
		if c == nil || seen[k] {
			continue
		}
		for _, p := range c.Props {
			if p == prop {
				keys = append(keys, k)
				seen[k] = true
				break
			}
		}
	}
	return keys
}

func (P *Prog) fileCoverage(results []*FuncResult, aggs map[string]*AggObl) map[string]interface{} {
	type fc struct{ total, matched, proved int }
	byFile := map[string]*fc{}
	unmatched := map[string][]string{}
	isGen := func(f string) bool {
		return strings.HasPrefix(f, "generic_") || strings.HasPrefix(f, "eng_") || f == "getset.go" || f == "array_getset.go" ||
			f == "dense_maskcmp_methods.go" || f == "dense_generated.go" || strings.HasPrefix(f, "iterator_native") || f == "reduction_specialization.go"
	}
	resByKey := map[string]*FuncResult{}
	for _, r := range results {
		resByKey[r.Key] = r
	}
	for k, fn := range P.funcs {
		if !strings.HasPrefix(k, "gorgonia.org/tensor") || fn.Blocks == nil || strings.Contains(k, "$") {
			continue
		}
		f := P.fnFile[k]
		if !isGen(f) {
			continue
		}
		c := byFile[f]
		if c == nil {
			c = &fc{}
			byFile[f] = c
		}
		c.total++
		r := resByKey[k]
		if r == nil {
			unmatched[f] = append(unmatched[f], shortKey(k))
			continue
		}
		c.matched++
		ok := r.Unsupported == ""
		for _, a := range aggregate(r.Obls) {
			if a.Status != "discharged" {
				ok = false
			}
		}
		if ok {
			c.proved++
		}
	}
	out := map[string]interface{}{}
	for f, c := range byFile {
		u := unmatched[f]
		sort.Strings(u)
		if len(u) > 40 {
			u = append(u[:40], fmt.Sprintf("... and %d more", len(u)-40))
		}
		out[f] = map[string]interface{}{"functions_total": c.total, "functions_matched": c.matched, "functions_proved": c.proved, "unmatched": u}
	}
	return out
}

// trustedClosure lists every trusted contract this run relied on: the trusted functions named by the
// property and the trusted callee contracts applied while verifying the others.
func trustedClosure(P *Prog, direct []string, results []*FuncResult) []string {
	seen := map[string]bool{}
	var out []string
	add := func(k string, why string) {
		k = shortKey(k)
		if !seen[k] {
			seen[k] = true
			if why != "" {
				k += " (" + why + ")"
			}
			out = append(out, k)
		}
	}
	for _, r := range results {
		if r.Trusted {
			add(r.Key, r.TrustedWhy)
		}
		for _, u := range r.Used {
			if c := P.ContractFor(expandKey(u)); c != nil && c.Trusted {
				add(u, "")
			} else if c := P.ContractFor(u); c != nil && c.Trusted {
				add(u, "")
			}
		}
	}
	for _, d := range direct {
		add(d, "")
	}
	sort.Strings(out)
	return out
}
