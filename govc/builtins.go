package main

import (
	"fmt"
	"go/types"
	"strings"

	"golang.org/x/tools/go/ssa"
)

var externPkgAlias = map[string]string{
	"math":    "math",
	"cmplx":   "math/cmplx",
	"math32":  "github.com/chewxy/math32",
	"vecf64":  "gorgonia.org/vecf64",
	"vecf32":  "gorgonia.org/vecf32",
	"errors":  "github.com/pkg/errors",
	"reflect": "reflect",
}

func (P *Prog) resolveExtern(name string) string {
	i := strings.LastIndex(name, ".")
	if i < 0 {
		return name
	}
	if full, ok := externPkgAlias[name[:i]]; ok {
		return full + name[i:]
	}
	return expandKey(name)
}

var purePkgs = map[string]bool{"math": true, "math/cmplx": true, "github.com/chewxy/math32": true, "math/bits": true}

func (x *Exec) lookupFuncSig(full string) *types.Signature {
	if fn, ok := x.P.funcs[full]; ok {
		return fn.Signature
	}
	i := strings.LastIndex(full, ".")
	if i < 0 {
		return nil
	}
	pkgPath, name := full[:i], full[i+1:]
	for _, pp := range x.P.prog.AllPackages() {
		if pp.Pkg.Path() == pkgPath {
			if obj := pp.Pkg.Scope().Lookup(name); obj != nil {
				if sig, ok := obj.Type().(*types.Signature); ok {
					return sig
				}
			}
		}
	}
	return nil
}

// pureExtern models a call to a side-effect-free external function as an uninterpreted symbol
// named after the function.
func (x *Exec) pureExtern(st *State, full string, args []Value) (Value, bool) {
	sig := x.lookupFuncSig(full)
	if sig == nil {
		return nil, false
	}
	var ats []Term
	var sorts []string
	for _, a := range args {
		s, ok := a.(Scalar)
		if !ok {
			return nil, false
		}
		ats = append(ats, s.T)
		sorts = append(sorts, s.T.Sort)
	}
	var outs []Value
	for i := 0; i < sig.Results().Len(); i++ {
		rt := sig.Results().At(i).Type()
		if !isScalarType(rt) {
			return nil, false
		}
		name := "fn!" + smtName(full)
		if sig.Results().Len() > 1 {
			name += fmt.Sprintf("!%d", i)
		}
		x.decls.Fun(name, sorts, sortOf(rt))
		outs = append(outs, Scalar{App(sortOf(rt), name, ats...)})
	}
	return packResults(outs), true
}

func (x *Exec) pureMethod(st *State, recv Value, method string, args []Value) (Value, bool) {
	iv, ok := recv.(IfaceV)
	if !ok {
		return nil, false
	}
	// find a pure contract whose key ends with .<method> and is an interface method
	for key, c := range x.P.db.Contracts {
		if !c.Pure || !strings.HasSuffix(key, "."+method) {
			continue
		}
		return x.pureIfaceCall(st, key, iv, args[1:], x.P.ifaceMethodSig(key)), true
	}
	return nil, false
}

func (P *Prog) ifaceMethodSig(key string) *types.Signature {
	i := strings.LastIndex(key, ".")
	j := strings.LastIndex(key[:i], ".")
	pkgPath, tname, mname := key[:j], key[j+1:i], key[i+1:]
	for _, pp := range P.prog.AllPackages() {
		if pp.Pkg.Path() != pkgPath {
			continue
		}
		obj := pp.Pkg.Scope().Lookup(tname)
		if obj == nil {
			continue
		}
		it, ok := obj.Type().Underlying().(*types.Interface)
		if !ok {
			continue
		}
		for k := 0; k < it.NumMethods(); k++ {
			if it.Method(k).Name() == mname {
				return it.Method(k).Type().(*types.Signature)
			}
		}
	}
	return nil
}

func (x *Exec) pureIfaceCall(st *State, key string, iv IfaceV, args []Value, sig *types.Signature) Value {
	ats := []Term{iv.Tag, iv.Val}
	sorts := []string{SInt, SInt}
	for _, a := range args {
		for _, l := range flatten(a) {
			ats = append(ats, l)
			sorts = append(sorts, l.Sort)
		}
	}
	if sig == nil {
		x.unsupportedf("no signature for pure method %s", key)
	}
	var outs []Value
	for i := 0; i < sig.Results().Len(); i++ {
		rt := sig.Results().At(i).Type()
		ls := leavesOf(rt)
		ts := make([]Term, len(ls))
		for j, l := range ls {
			name := fmt.Sprintf("m!%s!%d%s", smtName(shortKey(key)), i, smtName(l.name))
			x.decls.Fun(name, sorts, l.sort)
			ts[j] = App(l.sort, name, ats...)
		}
		v, _ := unflatten(rt, ts)
		outs = append(outs, v)
	}
	return packResults(outs)
}

// modelCall handles functions with built-in models. Returns false if key has none.
func (x *Exec) modelCall(st *State, key string, sig *types.Signature, args []Value, pos string, cont func(*State, Value)) bool {
	i := strings.LastIndex(key, ".")
	pkgPath := ""
	if i >= 0 {
		pkgPath = key[:i]
	}
	name := key[i+1:]
	switch {
	case purePkgs[pkgPath]:
		r, ok := x.pureExtern(st, key, args)
		if !ok {
			x.unsupportedf("call to %s with non-scalar arguments at %s", key, pos)
		}
		cont(st, r)
		return true
	case pkgPath == "github.com/pkg/errors" || key == "errors.New" || key == "fmt.Errorf":
		switch name {
		case "Errorf", "New":
			cont(st, x.freshError(st))
		case "Wrap", "Wrapf", "WithStack", "WithMessage", "WithMessagef":
			in := args[0].(IfaceV)
			fe := x.freshError(st)
			cont(st, IfaceV{Ite(Eq(in.Tag, IntLit(0)), IntLit(0), fe.Tag), Ite(Eq(in.Tag, IntLit(0)), IntLit(0), fe.Val)})
		case "Cause":
			cont(st, args[0])
		default:
			return false
		}
		return true
	case key == "fmt.Sprintf" || key == "fmt.Sprint":
		cont(st, Scalar{x.decls.Fresh("str", "Str")})
		return true
	case key == pkgTensor+".BorrowInts":
		// model of the trusted pool primitive: a fresh, zeroed slice with len == cap == size
		n := args[0].(Scalar).T
		x.addObl(st, "pre", "tensor.BorrowInts:size", Le(IntLit(0), n), pos, "BorrowInts: size >= 0")
		x.usedContracts[key] = true
		cont(st, x.makeSlice(st, types.Typ[types.Int], n, n, true))
		return true
	case key == "runtime.SetFinalizer" || key == "runtime.KeepAlive":
		cont(st, nil)
		return true
	case key == "reflect.Type.Size":
		iv := args[0].(IfaceV)
		x.decls.Fun("rtype_size", []string{SInt}, SInt)
		x.decls.Fun("conv_Int_E_uintptr", []string{SInt}, "E_uintptr")
		sz := App(SInt, "rtype_size", iv.Val)
		if id, ok := iv.Val.IsLit(); ok {
			if t, known := x.rtypeUsed[int(id)]; known {
				sz = IntLit(stdSizes.Sizeof(t))
			}
		} else {
			st.assume(Lt(IntLit(0), sz))
		}
		cont(st, Scalar{App("E_uintptr", "conv_Int_E_uintptr", sz)})
		return true
	case key == "reflect.Type.Kind":
		iv := args[0].(IfaceV)
		x.decls.Fun("rtype_kind", []string{SInt}, "E_uint")
		cont(st, Scalar{App("E_uint", "rtype_kind", iv.Val)})
		return true
	}
	if c := x.P.ContractFor(key); c != nil && c.Pure && strings.Count(key, ".") >= 2 && sig != nil {
		if iv, ok := args[0].(IfaceV); ok {
			cont(st, x.pureIfaceCall(st, key, iv, args[1:], sig))
			return true
		}
	}
	return false
}

func (x *Exec) freshError(st *State) IfaceV {
	t := x.P.lookupType("github.com/pkg/errors.fundamental")
	var tag int
	if t != nil {
		tag = x.P.typeTag(types.NewPointer(t))
	} else {
		tag = x.P.typeTag(types.Universe.Lookup("error").Type())
	}
	return IfaceV{IntLit(int64(tag)), x.allocRef(st)}
}

func (P *Prog) lookupType(name string) types.Type {
	if strings.HasPrefix(name, "[]") {
		// slices of basic types ("[]float64")
		if bt, ok := basicByName[name[2:]]; ok {
			return types.NewSlice(bt)
		}
		return nil
	}
	name = expandKey(name)
	ptr := false
	if strings.HasPrefix(name, "*") {
		ptr = true
		name = expandKey(name[1:])
	}
	i := strings.LastIndex(name, ".")
	if i < 0 {
		if bt, ok := basicByName[name]; ok {
			return bt
		}
		return nil
	}
	pkgPath, tn := name[:i], name[i+1:]
	for _, pp := range P.prog.AllPackages() {
		if pp.Pkg.Path() == pkgPath {
			if obj := pp.Pkg.Scope().Lookup(tn); obj != nil {
				if _, ok := obj.(*types.TypeName); ok {
					if ptr {
						return types.NewPointer(obj.Type())
					}
					return obj.Type()
				}
			}
		}
	}
	return nil
}

func (x *Exec) globalConst(name string) (Value, bool) {
	pkgPath := pkgTensor
	if x.fn != nil && x.fn.Pkg != nil {
		pkgPath = x.fn.Pkg.Pkg.Path()
	}
	for _, pth := range []string{pkgPath, pkgTensor, pkgExec, pkgStorage} {
		sp := x.P.pkgs[pth]
		if sp == nil {
			continue
		}
		if obj := sp.Pkg.Scope().Lookup(name); obj != nil {
			if c, ok := obj.(*types.Const); ok {
				return x.constVal(nil, ssa.NewConst(c.Val(), c.Type())), true
			}
			if _, ok := obj.(*types.Var); ok {
				if g, ok := sp.Members[name].(*ssa.Global); ok && x.evalState != nil {
					return x.loadPtr(x.evalState, x.globalPtr(g).(PtrV)), true
				}
			}
		}
	}
	return nil, false
}

// ---------- Go builtins ----------

func (x *Exec) builtin(st *State, name string, call *ssa.Call, args []Value, cont func(*State, Value)) {
	pos := x.posOf(call)
	switch name {
	case "len":
		switch a := args[0].(type) {
		case SliceV:
			cont(st, Scalar{a.Len})
		case Scalar:
			x.decls.Fun("strlen", []string{"Str"}, SInt)
			t := App(SInt, "strlen", a.T)
			st.assume(Le(IntLit(0), t))
			cont(st, Scalar{t})
		default:
			x.unsupportedf("len of %T at %s", a, pos)
		}
	case "cap":
		cont(st, Scalar{args[0].(SliceV).Cap})
	case "ssa:wrapnilchk":
		cont(st, args[0])
	case "ssa:deferstack":
		cont(st, Scalar{IntLit(0)})
	case "print", "println":
		cont(st, nil)
	case "copy":
		dst := args[0].(SliceV)
		src, ok := args[1].(SliceV)
		if !ok {
			x.unsupportedf("copy from string at %s", pos)
		}
		n := Ite(Le(dst.Len, src.Len), dst.Len, src.Len)
		x.memmove(st, dst, src, n, pos)
		cont(st, Scalar{n})
	case "append":
		x.appendOp(st, args[0].(SliceV), args[1], pos, cont)
	case "min", "max":
		a, b := args[0].(Scalar).T, args[1].(Scalar).T
		if a.Sort != SInt || len(args) != 2 {
			x.unsupportedf("builtin %s on %s at %s", name, a.Sort, pos)
		}
		if name == "min" {
			cont(st, Scalar{Ite(Le(a, b), a, b)})
		} else {
			cont(st, Scalar{Ite(Ge(a, b), a, b)})
		}
	case "real", "imag":
		a := args[0].(Scalar).T
		rs := "E_float64"
		if a.Sort == "E_complex64" {
			rs = "E_float32"
		}
		cont(st, Scalar{x.eop(name, a.Sort, rs, a)})
	case "complex":
		a, b := args[0].(Scalar).T, args[1].(Scalar).T
		rs := "E_complex128"
		if a.Sort == "E_float32" {
			rs = "E_complex64"
		}
		cont(st, Scalar{x.eop("complex", a.Sort, rs, a, b)})
	default:
		x.unsupportedf("builtin %s at %s", name, pos)
	}
}

// memmove copies n elements from src to dst (overlap-safe: all sources are read first).
func (x *Exec) memmove(st *State, dst, src SliceV, n Term, pos string) {
	ms := heapMaps(PElem, dst.Elem, nil)
	if k, ok := n.IsLit(); ok && k <= 64 {
		if k <= 0 {
			return
		}
		vals := make([]Value, k)
		for j := int64(0); j < k; j++ {
			vals[j] = x.loadPtr(st, PtrV{Kind: PElem, Arr: src.Arr, Idx: Idx(src.Off, IntLit(j)), Root: src.Elem})
		}
		for j := int64(0); j < k; j++ {
			x.storePtr(st, PtrV{Kind: PElem, Arr: dst.Arr, Idx: Idx(dst.Off, IntLit(j)), Root: dst.Elem}, vals[j], pos)
		}
		return
	}
	// symbolic length: frame check for the whole destination range, then a quantified definition
	if !x.assignAll {
		var alts []Term
		ek := typeKey(dst.Elem)
		for _, r := range st.assign {
			if !r.IsElem || r.ElemKey != ek {
				continue
			}
			c := Eq(r.Arr, dst.Arr)
			if r.Lo.S != "" {
				c = And(c, Or(Le(n, IntLit(0)), And(Le(r.Lo, dst.Off), Le(Add(dst.Off, n), r.Hi))))
			}
			alts = append(alts, c)
		}
		x.addObl(st, "assigns", "copy", Or(alts...), pos, "destination of copy/append must be in the assigns frame")
	}
	for _, m := range ms {
		h := x.heapGet(st, m)
		inner := elemSortOfArray(m.sort)
		oldDst := Select(h, dst.Arr)
		oldSrc := Select(h, src.Arr)
		fresh := x.decls.Fresh(m.name+"@cp", inner)
		j := Term{"j!cp", SInt}
		in := And(Le(dst.Off, j), Lt(j, Add(dst.Off, n)))
		st.assume(Forall([]Term{j}, Ite(in,
			Eq(Select(fresh, j), Select(oldSrc, Add(src.Off, Sub(j, dst.Off)))),
			Eq(Select(fresh, j), Select(oldDst, j)))))
		x.heapSet(st, m, Store(h, dst.Arr, fresh))
	}
}

func (x *Exec) appendOp(st *State, s SliceV, tv Value, pos string, cont func(*State, Value)) {
	var t SliceV
	switch a := tv.(type) {
	case SliceV:
		t = a
	case Scalar:
		if a.T.S == "0" {
			cont(st, s)
			return
		}
		x.unsupportedf("append of string at %s", pos)
	}
	if s.Elem == nil {
		s.Elem = t.Elem
	}
	n := Add(s.Len, t.Len)
	fits := Le(n, s.Cap)
	if m, ok := t.Len.IsLit(); ok && m == 0 {
		cont(st, s)
		return
	}
	doFit := func(st *State) {
		dst := SliceV{Arr: s.Arr, Off: Add(s.Off, s.Len), Len: t.Len, Cap: t.Len, Elem: s.Elem}
		x.memmove(st, dst, t, t.Len, pos)
		cont(st, SliceV{Arr: s.Arr, Off: s.Off, Len: n, Cap: s.Cap, Elem: s.Elem})
	}
	doGrow := func(st *State) {
		nc := x.decls.Fresh("newcap", SInt)
		st.assume(Le(n, nc))
		r := x.makeSlice(st, s.Elem, n, nc, false)
		x.memmove(st, SliceV{Arr: r.Arr, Off: IntLit(0), Len: s.Len, Cap: s.Len, Elem: s.Elem}, s, s.Len, pos)
		x.memmove(st, SliceV{Arr: r.Arr, Off: s.Len, Len: t.Len, Cap: t.Len, Elem: s.Elem}, t, t.Len, pos)
		cont(st, r)
	}
	switch {
	case fits.IsTrue():
		doFit(st)
	case fits.IsFalse():
		doGrow(st)
	default:
		x.paths++
		st2 := st.clone()
		st.assume(fits)
		st.path = append(st.path, "fit")
		st2.assume(Not(fits))
		st2.path = append(st2.path, "grow")
		if x.feasible(st) {
			doFit(st)
		}
		if x.feasible(st2) {
			doGrow(st2)
		}
	}
}
