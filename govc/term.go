package main

import (
	"fmt"
	"math/big"
	"strconv"
	"strings"
)

// Term is an SMT-LIB term with its sort. Terms are plain strings; literal
// integers and booleans are folded eagerly so that rank-bounded execution
// (concrete slice lengths) reduces loop conditions to constants.
type Term struct {
	S    string
	Sort string
}

const (
	SInt  = "Int"
	SBool = "Bool"
)

var (
	TTrue  = Term{"true", SBool}
	TFalse = Term{"false", SBool}
)

func IntLit(n int64) Term {
	if n < 0 {
		return Term{"(- " + strconv.FormatInt(-n, 10) + ")", SInt}
	}
	return Term{strconv.FormatInt(n, 10), SInt}
}

func BigLit(n *big.Int) Term {
	if n.Sign() < 0 {
		return Term{"(- " + new(big.Int).Neg(n).String() + ")", SInt}
	}
	return Term{n.String(), SInt}
}

func BoolLit(b bool) Term {
	if b {
		return TTrue
	}
	return TFalse
}

func (t Term) IsLit() (int64, bool) {
	if t.Sort != SInt {
		return 0, false
	}
	s := t.S
	if strings.HasPrefix(s, "(- ") && strings.HasSuffix(s, ")") {
		n, err := strconv.ParseInt(s[3:len(s)-1], 10, 64)
		if err == nil {
			return -n, true
		}
		return 0, false
	}
	if len(s) > 0 && s[0] >= '0' && s[0] <= '9' {
		n, err := strconv.ParseInt(s, 10, 64)
		if err == nil {
			return n, true
		}
	}
	return 0, false
}

func (t Term) IsTrue() bool  { return t.S == "true" }
func (t Term) IsFalse() bool { return t.S == "false" }

func App(sort string, f string, args ...Term) Term {
	var sb strings.Builder
	sb.WriteByte('(')
	sb.WriteString(f)
	for _, a := range args {
		sb.WriteByte(' ')
		sb.WriteString(a.S)
	}
	sb.WriteByte(')')
	return Term{sb.String(), sort}
}

func Add(a, b Term) Term {
	x, ok1 := a.IsLit()
	y, ok2 := b.IsLit()
	if ok1 && ok2 {
		return IntLit(x + y)
	}
	if ok1 && x == 0 {
		return b
	}
	if ok2 && y == 0 {
		return a
	}
	// (+ (+ X c1) c2) -> (+ X c1+c2)
	if ok2 && strings.HasPrefix(a.S, "(+ ") {
		body := a.S[3 : len(a.S)-1]
		e1 := sexprEnd(body, 0)
		rest := strings.TrimSpace(body[e1:])
		if c1, ok := (Term{rest, SInt}).IsLit(); ok && sexprEnd(body, e1) == len(body) {
			return Add(Term{strings.TrimSpace(body[:e1]), SInt}, IntLit(c1+y))
		}
	}
	return App(SInt, "+", a, b)
}

func Sub(a, b Term) Term {
	x, ok1 := a.IsLit()
	y, ok2 := b.IsLit()
	if ok1 && ok2 {
		return IntLit(x - y)
	}
	if ok2 && y == 0 {
		return a
	}
	if a.S == b.S {
		return IntLit(0)
	}
	return App(SInt, "-", a, b)
}

func Mul(a, b Term) Term {
	x, ok1 := a.IsLit()
	y, ok2 := b.IsLit()
	if ok1 && ok2 {
		return IntLit(x * y)
	}
	if (ok1 && x == 0) || (ok2 && y == 0) {
		return IntLit(0)
	}
	if ok1 && x == 1 {
		return b
	}
	if ok2 && y == 1 {
		return a
	}
	return App(SInt, "*", a, b)
}

func Neg(a Term) Term { return Sub(IntLit(0), a) }

// Go's truncated division and remainder, from SMT's floor-style div/mod.
func QuoInt(a, b Term) Term {
	x, ok1 := a.IsLit()
	y, ok2 := b.IsLit()
	if ok1 && ok2 && y != 0 {
		return IntLit(x / y)
	}
	if ok2 && y == 1 {
		return a
	}
	if ok2 && y > 0 {
		// a >= 0 ? a div y : -((-a) div y)
		return Ite(Ge(a, IntLit(0)), App(SInt, "div", a, b), Neg(App(SInt, "div", Neg(a), b)))
	}
	return App(SInt, "goquo", a, b)
}

func RemInt(a, b Term) Term {
	x, ok1 := a.IsLit()
	y, ok2 := b.IsLit()
	if ok1 && ok2 && y != 0 {
		return IntLit(x % y)
	}
	if ok2 && y > 0 {
		return Ite(Ge(a, IntLit(0)), App(SInt, "mod", a, b), Neg(App(SInt, "mod", Neg(a), b)))
	}
	return App(SInt, "gorem", a, b)
}

func cmpFold(op string, a, b Term) (Term, bool) {
	x, ok1 := a.IsLit()
	y, ok2 := b.IsLit()
	if ok1 && ok2 {
		switch op {
		case "<":
			return BoolLit(x < y), true
		case "<=":
			return BoolLit(x <= y), true
		case ">":
			return BoolLit(x > y), true
		case ">=":
			return BoolLit(x >= y), true
		case "=":
			return BoolLit(x == y), true
		}
	}
	if a.S == b.S {
		switch op {
		case "<", ">":
			return TFalse, true
		case "<=", ">=", "=":
			return TTrue, true
		}
	}
	return Term{}, false
}

func Lt(a, b Term) Term {
	if t, ok := cmpFold("<", a, b); ok {
		return t
	}
	return App(SBool, "<", a, b)
}
func Le(a, b Term) Term {
	if t, ok := cmpFold("<=", a, b); ok {
		return t
	}
	return App(SBool, "<=", a, b)
}
func Gt(a, b Term) Term {
	if t, ok := cmpFold(">", a, b); ok {
		return t
	}
	return App(SBool, ">", a, b)
}
func Ge(a, b Term) Term {
	if t, ok := cmpFold(">=", a, b); ok {
		return t
	}
	return App(SBool, ">=", a, b)
}

func Eq(a, b Term) Term {
	if a.Sort != b.Sort {
		panic(fmt.Sprintf("Eq: sort mismatch %s:%s vs %s:%s", a.S, a.Sort, b.S, b.Sort))
	}
	if a.Sort == SInt {
		if t, ok := cmpFold("=", a, b); ok {
			return t
		}
	}
	if a.S == b.S {
		return TTrue
	}
	if a.Sort == SBool {
		if a.IsTrue() {
			return b
		}
		if b.IsTrue() {
			return a
		}
		if a.IsFalse() {
			return Not(b)
		}
		if b.IsFalse() {
			return Not(a)
		}
	}
	return App(SBool, "=", a, b)
}

func Ne(a, b Term) Term { return Not(Eq(a, b)) }

func Not(a Term) Term {
	if a.IsTrue() {
		return TFalse
	}
	if a.IsFalse() {
		return TTrue
	}
	if strings.HasPrefix(a.S, "(not ") {
		return Term{a.S[5 : len(a.S)-1], SBool}
	}
	return App(SBool, "not", a)
}

func And(ts ...Term) Term {
	var out []Term
	for _, t := range ts {
		if t.IsFalse() {
			return TFalse
		}
		if t.IsTrue() {
			continue
		}
		out = append(out, t)
	}
	switch len(out) {
	case 0:
		return TTrue
	case 1:
		return out[0]
	}
	return App(SBool, "and", out...)
}

func Or(ts ...Term) Term {
	var out []Term
	for _, t := range ts {
		if t.IsTrue() {
			return TTrue
		}
		if t.IsFalse() {
			continue
		}
		out = append(out, t)
	}
	switch len(out) {
	case 0:
		return TFalse
	case 1:
		return out[0]
	}
	return App(SBool, "or", out...)
}

func Implies(a, b Term) Term {
	if a.IsTrue() {
		return b
	}
	if a.IsFalse() || b.IsTrue() {
		return TTrue
	}
	if b.IsFalse() {
		return Not(a)
	}
	return App(SBool, "=>", a, b)
}

func Ite(c, a, b Term) Term {
	if c.IsTrue() {
		return a
	}
	if c.IsFalse() {
		return b
	}
	if a.S == b.S {
		return a
	}
	if a.Sort == SBool {
		if a.IsTrue() && b.IsFalse() {
			return c
		}
		if a.IsFalse() && b.IsTrue() {
			return Not(c)
		}
	}
	return App(a.Sort, "ite", c, a, b)
}

func ArraySort(idx, elem string) string { return "(Array " + idx + " " + elem + ")" }

// elemSortOfArray returns the element sort of "(Array I E)".
func elemSortOfArray(s string) string {
	// parse "(Array " idx elem ")"
	if !strings.HasPrefix(s, "(Array ") {
		panic("not an array sort: " + s)
	}
	rest := s[len("(Array ") : len(s)-1]
	// idx is one s-expr
	i := sexprEnd(rest, 0)
	return strings.TrimSpace(rest[i:])
}

func sexprEnd(s string, i int) int {
	for i < len(s) && s[i] == ' ' {
		i++
	}
	if i < len(s) && s[i] == '(' {
		d := 0
		for ; i < len(s); i++ {
			if s[i] == '(' {
				d++
			} else if s[i] == ')' {
				d--
				if d == 0 {
					return i + 1
				}
			}
		}
		return i
	}
	for i < len(s) && s[i] != ' ' && s[i] != ')' {
		i++
	}
	return i
}

func Select(arr, idx Term) Term {
	// fold select over store with syntactically equal / distinct literal index
	cur := arr
	for strings.HasPrefix(cur.S, "(store ") {
		a, i, v, ok := splitStore(cur.S)
		if !ok {
			break
		}
		if i == idx.S {
			return Term{v, elemSortOfArray(arr.Sort)}
		}
		if knownDistinct(i, idx.S) {
			cur = Term{a, arr.Sort}
			continue
		}
		break
	}
	return App(elemSortOfArray(arr.Sort), "select", cur, idx)
}

func splitStore(s string) (a, i, v string, ok bool) {
	body := s[len("(store ") : len(s)-1]
	e1 := sexprEnd(body, 0)
	a = strings.TrimSpace(body[:e1])
	e2 := sexprEnd(body, e1)
	i = strings.TrimSpace(body[e1:e2])
	v = strings.TrimSpace(body[e2:])
	if a == "" || i == "" || v == "" {
		return "", "", "", false
	}
	return a, i, v, true
}

func Store(arr, idx, v Term) Term {
	return App(arr.Sort, "store", arr, idx, v)
}

func Forall(vars []Term, body Term) Term {
	if body.IsTrue() || len(vars) == 0 {
		return body
	}
	var sb strings.Builder
	sb.WriteString("(forall (")
	for _, v := range vars {
		fmt.Fprintf(&sb, "(%s %s)", v.S, v.Sort)
	}
	sb.WriteString(") ")
	sb.WriteString(body.S)
	sb.WriteString(")")
	return Term{sb.String(), SBool}
}

func Exists(vars []Term, body Term) Term {
	if body.IsFalse() || len(vars) == 0 {
		return body
	}
	var sb strings.Builder
	sb.WriteString("(exists (")
	for _, v := range vars {
		fmt.Fprintf(&sb, "(%s %s)", v.S, v.Sort)
	}
	sb.WriteString(") ")
	sb.WriteString(body.S)
	sb.WriteString(")")
	return Term{sb.String(), SBool}
}

// Idx builds the absolute index off+i of a slice element. With a symbolic offset the sum is
// wrapped in the function idx (axiom: idx(o,i) = o+i, pattern idx(o,i)) so that quantified
// invariants over slice elements E-match; z3 would otherwise normalise (+ off (+ i 1)) away
// from the pattern (+ off i).
func Idx(off, i Term) Term {
	if _, ok := off.IsLit(); ok {
		return Add(off, i)
	}
	return App(SInt, "idx", off, i)
}

const idxAxiom = "(declare-fun idx (Int Int) Int)\n(assert (forall ((o!x Int) (i!x Int)) (! (= (idx o!x i!x) (+ o!x i!x)) :pattern ((idx o!x i!x)))))\n"

// allocParts splits "alloc0", "(+ alloc0 3)", "alloc!7" into (base, offset).
func allocParts(s string) (string, int64, bool) {
	if strings.HasPrefix(s, "alloc") && !strings.ContainsAny(s, " (") {
		return s, 0, true
	}
	if strings.HasPrefix(s, "(+ alloc") && strings.HasSuffix(s, ")") {
		f := strings.Fields(s[3 : len(s)-1])
		if len(f) == 2 {
			if n, err := strconv.ParseInt(f[1], 10, 64); err == nil {
				return f[0], n, true
			}
		}
	}
	return "", 0, false
}

// knownDistinct reports whether two index terms certainly denote different values:
// different literals; references allocated by the function at different offsets from the same
// allocation counter; or an allocated reference against an input/global reference
// (every input reference is below the entry value of the allocation counter).
func knownDistinct(a, b string) bool {
	x, ok1 := Term{a, SInt}.IsLit()
	y, ok2 := Term{b, SInt}.IsLit()
	if ok1 && ok2 {
		return x != y
	}
	ba, oa, isA := allocParts(a)
	bb, ob, isB := allocParts(b)
	if isA && isB {
		return ba == bb && oa != ob
	}
	isInput := func(s string, lit bool) bool {
		return lit || (strings.HasPrefix(s, "in_") && !strings.ContainsAny(s, " ("))
	}
	if isA && isInput(b, ok2) {
		return true
	}
	if isB && isInput(a, ok1) {
		return true
	}
	return false
}
