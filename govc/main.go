package main

import (
	"encoding/json"
	"flag"
	"fmt"
	"os"
	"runtime/debug"
	"runtime/pprof"
	"sort"
	"strings"
	"sync"
	"time"
)

func main() {
	if len(os.Args) < 2 {
		fmt.Fprintln(os.Stderr, "usage: govc <verify|check|list> ...")
		os.Exit(2)
	}
	if os.Args[1] == "solver-helper" {
		helperMain()
		return
	}
	startHelper()
	// soft heap limit: the collector works harder above it instead of letting the heap double (peak RSS of the
	// largest properties would otherwise reach 25 GB); GOMEMLIMIT in the environment overrides it
	if os.Getenv("GOMEMLIMIT") == "" {
		debug.SetMemoryLimit(12 << 30)
	}
	if pf := os.Getenv("GOVC_PROFILE"); pf != "" {
		f, _ := os.Create(pf)
		pprof.StartCPUProfile(f)
		go func() {
			time.Sleep(40 * time.Second)
			pprof.StopCPUProfile()
			f.Close()
			os.Exit(3)
		}()
	}
	switch os.Args[1] {
	case "verify":
		cmdVerify(os.Args[2:])
	case "check":
		cmdCheck(os.Args[2:])
	case "replay":
		cmdReplay(os.Args[2:])
	default:
		fmt.Fprintln(os.Stderr, "unknown command", os.Args[1])
		os.Exit(2)
	}
}

func cmdVerify(args []string) {
	fs := flag.NewFlagSet("verify", flag.ExitOnError)
	repo := fs.String("repo", "/repo", "repository root")
	tags := fs.String("tags", "verif", "build tags")
	maxRank := fs.Int("rank", 3, "max rank in rank-bounded mode")
	timeout := fs.Int("timeout", 10, "solver timeout (s)")
	dump := fs.Bool("dump", false, "print queries of undischarged obligations")
	dumpAll := fs.Bool("dumpall", false, "print all queries")
	verbose := fs.Bool("v", false, "print every obligation")
	thoroughF := fs.Bool("thorough", false, "thorough-tier rank caps (ignore maxrank_quick)")
	fs.Parse(args)
	t0 := time.Now()
	P, err := LoadProg(*repo, *tags)
	if err != nil {
		fmt.Fprintln(os.Stderr, "load:", err)
		os.Exit(2)
	}
	if err := P.LoadContracts(); err != nil {
		fmt.Fprintln(os.Stderr, "contracts:", err)
		os.Exit(2)
	}
	fmt.Printf("loaded in %.1fs: %d functions, %d contracts, %d schemas\n", time.Since(t0).Seconds(), len(P.funcs), len(P.db.Contracts), len(P.db.Schemas))
	solv := NewSolvers(time.Duration(*timeout)*time.Second, false)
	defer solv.Close()
	var keys []string
	for _, a := range fs.Args() {
		keys = append(keys, P.matchKeys(a)...)
	}
	results := P.VerifyAll(keys, VerifyOpts{MaxRank: *maxRank, Thorough: *thoroughF}, solv)
	bad := 0
	for _, r := range results {
		agg := aggregate(r.Obls)
		nd, nf, nu := 0, 0, 0
		for _, a := range agg {
			switch a.Status {
			case "discharged":
				nd++
			case "failed":
				nf++
			default:
				nu++
			}
		}
		fmt.Printf("%-60s %s paths=%d queries=%d obligations: %d discharged, %d failed, %d undecided  gen=%.2fs %s\n", shortKey(r.Key), r.Mode, r.Paths, len(r.Obls), nd, nf, nu, r.GenSeconds, r.Unsupported)
		for _, a := range agg {
			if a.Status != "discharged" || *verbose {
				fmt.Printf("    %-12s %s (%d queries, %.2fs) %s\n", a.Status, a.Name, a.Queries, a.Seconds, a.Detail)
			}
			if a.Status != "discharged" {
				bad++
			}
		}
		if *dump || *dumpAll {
			for _, o := range r.Obls {
				if (o.Result != "unsat" && !o.Canary) || (o.Canary && o.Result == "unsat") || *dumpAll {
					fmt.Printf("---- %s rank=%d path=%s result=%s\n%s(check-sat)\n", o.Name, o.Rank, o.Path, o.Result, o.Query)
					if o.Model != "" {
						fmt.Println(o.Model)
					}
				}
			}
		}
	}
	fmt.Printf("solver stats: ")
	for n, s := range solv.Stats {
		fmt.Printf("%s: %d queries %.1fs; ", n, s.Queries, s.Seconds)
	}
	fmt.Printf("\ntotal %.1fs\n", time.Since(t0).Seconds())
	if bad > 0 {
		solv.Close()
		os.Exit(1)
	}
}

// matchKeys expands a key or a prefix pattern ending in * over functions with contracts or matching schemas.
func (P *Prog) matchKeys(pat string) []string {
	pat = expandKey(pat)
	if !strings.HasSuffix(pat, "*") {
		return []string{pat}
	}
	pre := strings.TrimSuffix(pat, "*")
	var out []string
	for k := range P.funcs {
		if strings.HasPrefix(k, pre) && P.ContractFor(k) != nil {
			out = append(out, k)
		}
	}
	sort.Strings(out)
	return out
}

// VerifyAll generates the obligations of the given functions and solves them in batches.
func (P *Prog) VerifyAll(keys []string, opts VerifyOpts, solv *Solvers) []*FuncResult {
	results := make([]*FuncResult, len(keys))
	var all []*Obligation
	var est int64 // estimated size of the query texts of the pending chunk
	for i, k := range keys {
		c := P.ContractFor(k)
		if c == nil {
			results[i] = &FuncResult{Key: k, Unsupported: "no contract"}
			continue
		}
		opts2 := opts
		results[i] = P.verifyWith(k, c, opts2, solv)
		all = append(all, results[i].Obls...)
		for _, o := range results[i].Obls {
			est += int64(len(o.Goal.S)) + 20000
			for _, h := range o.Hyps {
				est += int64(len(h.S))
			}
		}
		// solve in chunks of whole functions so that the query texts of a large property are never all in
		// memory at once (the texts of discharged obligations are dropped, short ones kept as evidence samples)
		if len(all) >= 45000 || est >= 6e9 {
			solveAndRelease(all, solv)
			all, est = nil, 0
		}
	}
	solveAndRelease(all, solv)
	return results
}

func solveAndRelease(all []*Obligation, solv *Solvers) {
	if len(all) == 0 {
		return
	}
	SolveAll(all, solv)
	for _, o := range all {
		if o.Result == "unsat" && !o.Canary && len(o.Query) >= 6000 {
			o.Query = ""
		}
		if o.Canary && o.Result != "unsat" {
			o.Query = "" // a satisfiable probe is the expected outcome; its text is not needed again
		}
	}
}

// KnownFailing reports whether an obligation name is listed as a known finding (set by cmdCheck).
var KnownFailing func(name string) bool

func SolveAll(all []*Obligation, solv *Solvers) {
	t0 := time.Now()
	defer func() {
		if os.Getenv("GOVC_TIMING") != "" {
			fmt.Fprintf(os.Stderr, "SolveAll total %.1fs\n", time.Since(t0).Seconds())
		}
	}()
	tick := func(what string) {
		if os.Getenv("GOVC_TIMING") != "" {
			fmt.Fprintf(os.Stderr, "  [%.1fs] %s\n", time.Since(t0).Seconds(), what)
		}
	}
	_ = tick
	var todo []*Obligation
	var wg sync.WaitGroup
	sem := make(chan struct{}, 16)
	for _, o := range all {
		if o.Goal.IsTrue() && !o.Canary {
			o.Result, o.Solver = "unsat", "syntactic"
			continue
		}
		todo = append(todo, o)
		if o.Canary {
			continue // built lazily, round by round
		}
		wg.Add(1)
		go func(o *Obligation) {
			defer wg.Done()
			sem <- struct{}{}
			o.Query = o.BuildQuery()
			<-sem
		}(o)
	}
	wg.Wait()
	tick("queries built")
	var qs, ps []string
	var qi, pi []int
	for i, o := range todo {
		if o.Canary {
			ps = append(ps, "")
			pi = append(pi, i)
		} else {
			qs = append(qs, o.Query)
			qi = append(qi, i)
		}
	}
	rs := make([]solverResult, len(todo))
	var wg2 sync.WaitGroup
	wg2.Add(2)
	go func() {
		defer wg2.Done()
		// two rounds: the first few queries of every obligation; an obligation that already has a
		// counterexample is not pursued on its remaining paths (they would mostly time out)
		perName := map[string]int{}
		var first, rest []int
		var expectedFail []int
		for k, i := range qi {
			n := todo[i].Name
			if KnownFailing != nil && KnownFailing(n) {
				expectedFail = append(expectedFail, k)
				continue
			}
			perName[n]++
			if perName[n] <= 3 {
				first = append(first, k)
			} else {
				rest = append(rest, k)
			}
		}
		sub := func(ks []int) {
			var q2 []string
			for _, k := range ks {
				q2 = append(q2, qs[k])
			}
			for j, r := range solv.SolveBatch(q2) {
				rs[qi[ks[j]]] = r
			}
		}
		sub(first)
		tick("first round solved")
		failedName := map[string]bool{}
		for _, k := range first {
			if rs[qi[k]].Result != "unsat" {
				failedName[todo[qi[k]].Name] = true
			}
		}
		var rest2 []int
		for _, k := range rest {
			if failedName[todo[qi[k]].Name] {
				rs[qi[k]] = solverResult{Result: "skipped", Solver: "-"}
				continue
			}
			rest2 = append(rest2, k)
		}
		var wgk sync.WaitGroup
		wgk.Add(1)
		go func() {
			defer wgk.Done()
			sub(rest2)
			tick("rest solved")
		}()
		// obligations listed as known findings: one counterexample (or timeout) confirms the finding;
		// queries are tried in small rounds, later ranks first, and the rest is skipped
		if len(expectedFail) > 0 {
			by := map[string][]int{}
			var ns []string
			for _, k := range expectedFail {
				n := todo[qi[k]].Name
				if _, ok := by[n]; !ok {
					ns = append(ns, n)
				}
				by[n] = append(by[n], k)
			}
			done := map[string]bool{}
			at := map[string]int{}
			for {
				var batch []int
				for _, n := range ns {
					if done[n] {
						continue
					}
					ks := by[n]
					for c := 0; c < 6 && at[n] < len(ks); c++ {
						batch = append(batch, ks[len(ks)-1-at[n]])
						at[n]++
					}
				}
				if len(batch) == 0 {
					break
				}
				// one short z3 run per query, no fallback chain: for an obligation listed as a known
				// finding any answer other than unsat (a model, unknown, a timeout) confirms it is still
				// not discharged
				var q2 []string
				for _, k := range batch {
					q2 = append(q2, qs[k])
				}
				for j, r := range solv.solveBatch(q2, 3, false) {
					rs[qi[batch[j]]] = r
				}
				for _, k := range batch {
					if rs[qi[k]].Result != "unsat" {
						done[todo[qi[k]].Name] = true
					}
				}
			}
			for _, n := range ns {
				ks := by[n]
				for j := at[n]; j < len(ks); j++ {
					rs[qi[ks[len(ks)-1-j]]] = solverResult{Result: "skipped", Solver: "-"}
				}
			}
		}
		tick("known-failing rounds done")
		wgk.Wait()
		// last resort for the few queries still undecided (typically timeouts under load): retry with
		// a long timeout, few at a time
		var retry []int
		for _, k := range append(append([]int(nil), first...), rest2...) {
			if rs[qi[k]].Result == "unknown" {
				retry = append(retry, k)
			}
		}
		if len(retry) > 0 && len(retry) <= 40 {
			old := solv.timeout
			solv.timeout = 3 * old
			// per obligation name the retries run in order and stop at the first query that stays
			// unknown (the obligation is undecided then, whatever the others say)
			byName := map[string][]int{}
			var names []string
			for _, k := range retry {
				n := todo[qi[k]].Name
				if _, ok := byName[n]; !ok {
					names = append(names, n)
				}
				byName[n] = append(byName[n], k)
			}
			if len(names) > 12 {
				names = names[:12]
			}
			sem2 := make(chan struct{}, 6)
			var w3 sync.WaitGroup
			for _, n := range names {
				w3.Add(1)
				go func(ks []int) {
					defer w3.Done()
					sem2 <- struct{}{}
					defer func() { <-sem2 }()
					for _, k := range ks {
						r := solv.Solve(qs[k], false)
						if r.Result == "unknown" {
							return
						}
						rs[qi[k]] = r
					}
				}(byName[n])
			}
			w3.Wait()
			solv.timeout = old
		}
	}()
	go func() {
		defer wg2.Done()
		// vacuity probes: a name is settled by its first sat/unknown answer; probes are tried in
		// rounds (later ranks and later paths first), the remaining ones of a settled name are skipped
		byName := map[string][]int{}
		var names []string
		for k, i := range pi {
			n := todo[i].Name
			if _, ok := byName[n]; !ok {
				names = append(names, n)
			}
			byName[n] = append(byName[n], k)
		}
		for _, n := range names {
			ks := byName[n]
			sort.SliceStable(ks, func(a, b int) bool {
				oa, ob := todo[pi[ks[a]]], todo[pi[ks[b]]]
				if oa.Late != ob.Late {
					return !oa.Late
				}
				if oa.Rank != ob.Rank {
					return oa.Rank > ob.Rank
				}
				return ks[a] > ks[b]
			})
			// round-robin over the runs (rank, case) the probes come from, so that the first few probes
			// of a clause already cover every case of a proof by cases
			group := func(k int) string {
				o := todo[pi[k]]
				g := fmt.Sprint(o.Late, "|", o.Rank)
				if strings.HasPrefix(o.Path, "case:") {
					if i := strings.Index(o.Path, ">"); i > 0 {
						g += "|" + o.Path[:i]
					}
				}
				return g
			}
			var gorder []string
			buckets := map[string][]int{}
			for _, k := range ks {
				g := group(k)
				if _, ok := buckets[g]; !ok {
					gorder = append(gorder, g)
				}
				buckets[g] = append(buckets[g], k)
			}
			if len(gorder) > 1 {
				var early, late []int
				for i := 0; ; i++ {
					any := false
					for _, g := range gorder {
						if i < len(buckets[g]) {
							any = true
							k := buckets[g][i]
							if todo[pi[k]].Late {
								late = append(late, k)
							} else {
								early = append(early, k)
							}
						}
					}
					if !any {
						break
					}
				}
				copy(ks, append(early, late...))
			}
		}
		settled := map[string]bool{}
		pos := map[string]int{}
		for round := 0; ; round++ {
			var batch []int
			width := 3
			if round > 2 {
				width = 12 << uint(min(round-3, 5))
			}
			for _, n := range names {
				if settled[n] {
					continue
				}
				ks := byName[n]
				for c := 0; c < width && pos[n] < len(ks); c++ {
					batch = append(batch, ks[pos[n]])
					pos[n]++
				}
			}
			if len(batch) == 0 {
				break
			}
			q2 := make([]string, len(batch))
			var wgb sync.WaitGroup
			for j, k := range batch {
				wgb.Add(1)
				go func(j, k int) {
					defer wgb.Done()
					sem <- struct{}{}
					o := todo[pi[k]]
					o.Query = o.BuildQuery()
					q2[j] = o.Query
					<-sem
				}(j, k)
			}
			wgb.Wait()
			for j, r := range solv.SolveProbes(q2) {
				rs[pi[batch[j]]] = r
				if r.Result != "unsat" {
					settled[todo[pi[batch[j]]].Name] = true
				}
			}
		}
		tick("probes done")
		for _, n := range names {
			if settled[n] {
				for _, k := range byName[n][pos[n]:] {
					rs[pi[k]] = solverResult{Result: "skipped", Solver: "-"}
				}
			}
		}
	}()
	wg2.Wait()
	for i, o := range todo {
		r := rs[i]
		o.Result, o.Solver, o.Time = r.Result, r.Solver, r.Time
		if r.Result == "unknown" {
			o.Model = r.Output
		}
	}
	// models for failed obligations (first failing query per obligation name)
	seen := map[string]bool{}
	for _, o := range todo {
		if o.Result == "sat" && !o.Canary && !seen[o.Name] {
			seen[o.Name] = true
			wg.Add(1)
			go func(o *Obligation) {
				defer wg.Done()
				m := solv.Solve(o.Query, true)
				o.Model = m.Output
			}(o)
		}
	}
	wg.Wait()
}

type AggObl struct {
	Name    string      `json:"name"`
	Status  string      `json:"status"` // discharged / failed / undecided / vacuous
	Queries int         `json:"queries"`
	Seconds float64     `json:"seconds"`
	Detail  string      `json:"detail,omitempty"`
	Solvers string      `json:"solvers,omitempty"`
	Failing *Obligation `json:"-"`
}

// aggregate merges per-path, per-rank queries into named obligations.
func aggregate(obls []*Obligation) []*AggObl {
	m := map[string]*AggObl{}
	var order []string
	canarySat := map[string]bool{}
	for _, o := range obls {
		a := m[o.Name]
		if a == nil {
			a = &AggObl{Name: o.Name, Status: "discharged"}
			m[o.Name] = a
			order = append(order, o.Name)
			if o.Canary {
				a.Status = "vacuous"
			}
		}
		a.Queries++
		a.Seconds += o.Time
		if o.Canary {
			if o.Result == "skipped" {
				continue
			}
			if o.Result == "sat" || o.Result == "unknown" {
				canarySat[o.Name] = true
				a.Status = "discharged"
			}
			continue
		}
		switch o.Result {
		case "unsat", "skipped":
		case "sat":
			if a.Status != "failed" {
				a.Failing = o
			}
			a.Status = "failed"
			a.Detail = fmt.Sprintf("rank=%d path=%s %s %s", o.Rank, o.Path, o.Pos, o.Detail)
		default:
			if a.Status == "discharged" {
				a.Status = "undecided"
				a.Failing = o
				a.Detail = fmt.Sprintf("rank=%d path=%s %s %s", o.Rank, o.Path, o.Pos, o.Detail)
			}
		}
	}
	var out []*AggObl
	for _, n := range order {
		out = append(out, m[n])
	}
	return out
}

// cmdReplay re-verifies the function named in a replay file and, if the obligation still fails,
// re-runs the counterexample against the real code.
func cmdReplay(args []string) {
	fs := flag.NewFlagSet("replay", flag.ExitOnError)
	repo := fs.String("repo", "/repo", "repository root")
	prop := fs.String("property", "", "property id")
	file := fs.String("file", "", "replay file")
	fs.Parse(args)
	data, err := os.ReadFile(*file)
	if err != nil {
		fmt.Println("replay:", err)
		os.Exit(2)
	}
	var rec map[string]interface{}
	if err := json.Unmarshal(data, &rec); err != nil {
		fmt.Println("replay:", err)
		os.Exit(2)
	}
	name, _ := rec["obligation"].(string)
	i := strings.Index(name, "#")
	if i < 0 {
		fmt.Println("replay: the file records a bounded case or has no obligation name:", name)
		os.Exit(2)
	}
	P, err := LoadProg(*repo, "verif")
	if err != nil {
		fmt.Println("replay: load:", err)
		os.Exit(2)
	}
	if err := P.LoadContracts(); err != nil {
		fmt.Println("replay:", err)
		os.Exit(2)
	}
	solv := NewSolvers(10*time.Second, false)
	defer solv.Close()
	key := expandKey(name[:i])
	rs := P.VerifyAll([]string{key}, VerifyOpts{MaxRank: 4}, solv)
	for _, a := range aggregate(rs[0].Obls) {
		if a.Name != name {
			continue
		}
		fmt.Printf("obligation %s: %s\n", a.Name, a.Status)
		if a.Status == "discharged" {
			os.Exit(0)
		}
		out := *file + ".rerun.json"
		rep := P.writeReplay(out, *prop, a, "replay", solv)
		fmt.Printf("VIOLATION property=%s replay=%s obligation=%s", *prop, out, a.Name)
		if !rep {
			fmt.Print(" no-failing-input-found")
		}
		fmt.Println()
		os.Exit(1)
	}
	fmt.Printf("obligation %s is no longer generated\n", name)
	os.Exit(1)
}
