package main

import (
	"fmt"
	"go/types"
	"regexp"
	"strings"

	"golang.org/x/tools/go/ssa"
)

// Decls is the registry of SMT symbols introduced during one function's analysis.
type Decls struct {
	order []string
	decl  map[string]string // name -> full declaration command
	index map[string]int    // name -> position in order
	n     int
}

var freshSymRe = regexp.MustCompile(`![0-9]+(\)|\s|$)`)

func NewDecls() *Decls { return &Decls{decl: map[string]string{}, index: map[string]int{}} }

func (d *Decls) Const(name, sort string) Term {
	if _, ok := d.decl[name]; !ok {
		d.decl[name] = fmt.Sprintf("(declare-fun %s () %s)", name, sort)
		d.index[name] = len(d.order)
		d.order = append(d.order, name)
	}
	return Term{name, sort}
}

func (d *Decls) Fresh(prefix, sort string) Term {
	d.n++
	return d.Const(fmt.Sprintf("%s!%d", smtName(prefix), d.n), sort)
}

func (d *Decls) Fun(name string, args []string, ret string) {
	if _, ok := d.decl[name]; !ok {
		d.decl[name] = fmt.Sprintf("(declare-fun %s (%s) %s)", name, strings.Join(args, " "), ret)
		d.index[name] = len(d.order)
		d.order = append(d.order, name)
	}
}

func (d *Decls) Raw(name, cmd string) {
	if _, ok := d.decl[name]; !ok {
		d.decl[name] = cmd
		d.index[name] = len(d.order)
		d.order = append(d.order, name)
	}
}

func smtName(s string) string {
	var sb strings.Builder
	for _, r := range s {
		switch {
		case r >= 'a' && r <= 'z', r >= 'A' && r <= 'Z', r >= '0' && r <= '9', r == '_', r == '.', r == '!', r == '$', r == '@':
			sb.WriteRune(r)
		case r < 0x80:
			sb.WriteByte('_')
		default:
			fmt.Fprintf(&sb, "u%04x", r)
		}
	}
	return sb.String()
}

// Region is a set of heap locations a function may write.
type Region struct {
	IsElem bool
	// element range
	Arr, Lo, Hi Term // absolute indices [Lo,Hi); Lo/Hi zero-valued Term{} means whole array
	ElemKey     string
	// heap object fields
	Ref      Term
	RootKey  string
	PathPref string // map-name prefix ("" = every field)
	Desc     string
}

type Frame struct {
	fn     *ssa.Function
	regs   map[ssa.Value]Value
	cells  map[*ssa.Alloc]*Cell
	defers []*ssa.Defer
	deferA [][]Value
	ret    func(st *State, results []Value)
	depth  int
	names  map[string]Value // entry values of params (for contracts)
}

type State struct {
	frames  []*Frame
	cells   map[*Cell]Value
	heap    map[string]Term
	pc      []Term
	alloc   Term
	assign  []Region // assignable regions (nil slice + assignAll=false means nothing)
	freshLo Term     // refs >= freshLo were allocated by this function
	steps   int
	loopHd  map[*Loop]*State // snapshot at loop head (after havoc)
	loopIt  map[*Loop]int
	path    []string
	dead    bool
	havocs  []havocEvent
	formal  *specDef // non-nil: definitional state of a spec function (heap maps are formals)
	pcSet   map[string]bool
	alloc0  Term
	lits    map[string]string
	litN    int
}

func (st *State) top() *Frame { return st.frames[len(st.frames)-1] }

func (st *State) clone() *State {
	n := &State{
		cells: make(map[*Cell]Value, len(st.cells)), heap: make(map[string]Term, len(st.heap)),
		pc: append([]Term(nil), st.pc...), alloc: st.alloc, assign: append([]Region(nil), st.assign...),
		freshLo: st.freshLo, steps: st.steps, loopHd: map[*Loop]*State{}, loopIt: map[*Loop]int{},
		alloc0: st.alloc0,
		path:   append([]string(nil), st.path...), havocs: append([]havocEvent(nil), st.havocs...), formal: st.formal,
	}
	for k, v := range st.cells {
		n.cells[k] = v
	}
	for k, v := range st.heap {
		n.heap[k] = v
	}
	for k, v := range st.loopHd {
		n.loopHd[k] = v
	}
	for k, v := range st.loopIt {
		n.loopIt[k] = v
	}
	for _, f := range st.frames {
		nf := &Frame{fn: f.fn, regs: make(map[ssa.Value]Value, len(f.regs)), cells: make(map[*ssa.Alloc]*Cell, len(f.cells)),
			defers: append([]*ssa.Defer(nil), f.defers...), deferA: append([][]Value(nil), f.deferA...), ret: f.ret, depth: f.depth, names: f.names}
		for k, v := range f.regs {
			nf.regs[k] = v
		}
		for k, v := range f.cells {
			nf.cells[k] = v
		}
		n.frames = append(n.frames, nf)
	}
	return n
}

func (st *State) assume(t Term) {
	if t.IsTrue() {
		return
	}
	if t.IsFalse() {
		st.dead = true
	}
	if st.pcSet == nil {
		st.pcSet = map[string]bool{}
		for _, p := range st.pc {
			st.pcSet[p.S] = true
		}
	}
	if st.pcSet[t.S] {
		return
	}
	st.pcSet[t.S] = true
	st.pc = append(st.pc, t)
}

// ---------- heap maps ----------

type mapRef struct {
	name string
	sort string // sort of the whole map
}

func typeAtPath(t types.Type, path []int) types.Type {
	for _, i := range path {
		st, ok := t.Underlying().(*types.Struct)
		if !ok {
			panic(fmt.Sprintf("typeAtPath: %s is not a struct", t))
		}
		t = st.Field(i).Type()
	}
	return t
}

func pathName(t types.Type, path []int) string {
	var parts []string
	for _, i := range path {
		st := t.Underlying().(*types.Struct)
		parts = append(parts, st.Field(i).Name())
		t = st.Field(i).Type()
	}
	return strings.Join(parts, ".")
}

// heapMaps lists the heap maps holding the leaves of the location (root type, path).
func heapMaps(kind int, root types.Type, path []int) []mapRef {
	t := typeAtPath(root, path)
	pn := pathName(root, path)
	prefix := "H!"
	if kind == PElem {
		prefix = "M!"
	}
	prefix += typeKey(root) + "!"
	var out []mapRef
	for _, l := range leavesOf(t) {
		n := pn
		if l.name != "" {
			if n != "" {
				n += "."
			}
			n += l.name
		}
		s := ArraySort(SInt, l.sort)
		if kind == PElem {
			s = ArraySort(SInt, ArraySort(SInt, l.sort))
		}
		out = append(out, mapRef{smtName(prefix + n), s})
	}
	return out
}

func (x *Exec) heapGet(st *State, m mapRef) Term {
	if st.formal != nil {
		if !st.formal.mapIx[m.name] {
			st.formal.mapIx[m.name] = true
			st.formal.maps = append(st.formal.maps, m)
		}
		return Term{m.name + "$f", m.sort}
	}
	if t, ok := st.heap[m.name]; ok {
		return t
	}
	x.mapSorts[m.name] = m.sort
	t := x.decls.Const(m.name+"@0", m.sort)
	if x.entry != nil && st != x.entry {
		if _, ok := x.entry.heap[m.name]; !ok {
			x.entry.heap[m.name] = t
		}
	}
	for _, ev := range st.havocs {
		t = x.applyHavoc(st, m.name, m.sort, t, ev)
	}
	st.heap[m.name] = t
	return t
}

func (x *Exec) heapSet(st *State, m mapRef, v Term) {
	x.mapSorts[m.name] = m.sort
	// name long terms to keep queries small
	if len(v.S) > 200 {
		c := x.decls.Fresh(m.name, m.sort)
		st.assume(Term{"(= " + c.S + " " + v.S + ")", SBool})
		v = c
	}
	st.heap[m.name] = v
}

// refFacts adds the global heap invariant for a loaded reference leaf.
func (x *Exec) refFacts(st *State, l leaf, t Term) {
	if l.sort != SInt {
		return
	}
	if strings.HasSuffix(l.name, "arr") || l.name == "" || strings.HasSuffix(l.name, "val") {
		// only for reference-like leaves; "" covers pointers (and ints, harmless upper bound not added for ints)
	}
}

func (x *Exec) loadPtr(st *State, p PtrV) Value {
	t := typeAtPath(p.Root, p.Path)
	switch p.Kind {
	case PCell:
		v, ok := st.cells[p.Cell]
		if !ok {
			panic(fmt.Sprintf("load of unset cell %s", p.Cell.name))
		}
		for _, i := range p.Path {
			v = v.(StructV).Fields[i]
		}
		return v
	case PHeap:
		ms := heapMaps(PHeap, p.Root, p.Path)
		ls := make([]Term, len(ms))
		for i, m := range ms {
			ls[i] = Select(x.heapGet(st, m), p.Ref)
		}
		v, _ := unflatten(t, ls)
		x.loadedFacts(st, t, v)
		return v
	case PElem:
		ms := heapMaps(PElem, p.Root, p.Path)
		ls := make([]Term, len(ms))
		for i, m := range ms {
			ls[i] = Select(Select(x.heapGet(st, m), p.Arr), p.Idx)
		}
		v, _ := unflatten(t, ls)
		x.loadedFacts(st, t, v)
		return v
	}
	panic("loadPtr: bad pointer kind")
}

// loadedFacts assumes the well-formedness of values read from the heap
// (slice headers: 0 <= len <= cap, 0 <= off; references below the allocation counter).
func (x *Exec) loadedFacts(st *State, t types.Type, v Value) {
	bound := func(ref Term) Term {
		// references read from the unmodified entry heap were allocated before the call
		entryShaped := strings.HasPrefix(ref.S, "(select ") || (strings.HasPrefix(ref.S, "in_") && !strings.ContainsAny(ref.S, " ("))
		if entryShaped && st.alloc0.S != "" && !strings.Contains(ref.S, "@h") && !strings.Contains(ref.S, "@e") && !strings.Contains(ref.S, "(store") && !strings.Contains(ref.S, "alloc") && !freshSymRe.MatchString(ref.S) {
			return st.alloc0
		}
		return st.alloc
	}
	switch u := v.(type) {
	case SliceV:
		if _, isLit := u.Len.IsLit(); !isLit {
			st.assume(And(Le(IntLit(0), u.Len), Le(u.Len, u.Cap)))
		} else {
			st.assume(Le(u.Len, u.Cap))
		}
		st.assume(And(Le(IntLit(0), u.Off), Le(IntLit(0), u.Arr), Lt(u.Arr, bound(u.Arr))))
		st.assume(Implies(Eq(u.Arr, IntLit(0)), And(Eq(u.Len, IntLit(0)), Eq(u.Cap, IntLit(0)))))
	case PtrV:
		if u.Kind == PHeap {
			st.assume(Lt(u.Ref, bound(u.Ref)))
		}
	case StructV:
		for i, f := range u.Fields {
			x.loadedFacts(st, u.T.Field(i).Type(), f)
		}
	}
}

func setPath(v Value, path []int, nv Value) Value {
	if len(path) == 0 {
		return nv
	}
	sv := v.(StructV)
	nf := append([]Value(nil), sv.Fields...)
	nf[path[0]] = setPath(sv.Fields[path[0]], path[1:], nv)
	return StructV{nf, sv.T}
}

func (x *Exec) storePtr(st *State, p PtrV, v Value, pos string) {
	switch p.Kind {
	case PCell:
		old := st.cells[p.Cell]
		st.cells[p.Cell] = setPath(old, p.Path, v)
	case PHeap:
		ms := heapMaps(PHeap, p.Root, p.Path)
		ls := flatten(v)
		if len(ls) != len(ms) {
			panic(fmt.Sprintf("storePtr: %d leaves for %d maps (%s)", len(ls), len(ms), p.Root))
		}
		x.checkAssignObj(st, p, pos)
		for i, m := range ms {
			x.heapSet(st, m, Store(x.heapGet(st, m), p.Ref, ls[i]))
		}
	case PElem:
		ms := heapMaps(PElem, p.Root, p.Path)
		ls := flatten(v)
		if len(ls) != len(ms) {
			panic(fmt.Sprintf("storePtr: %d leaves for %d maps (%s)", len(ls), len(ms), p.Root))
		}
		x.checkAssignElem(st, p, pos)
		for i, m := range ms {
			h := x.heapGet(st, m)
			x.heapSet(st, m, Store(h, p.Arr, Store(Select(h, p.Arr), p.Idx, ls[i])))
		}
	default:
		panic("storePtr: bad pointer kind")
	}
}
