package main

import (
	"fmt"
	"go/types"
	"os"
	"runtime/debug"
	"sort"
	"strings"
	"time"

	"golang.org/x/tools/go/ssa"
)

type FuncResult struct {
	Key         string         `json:"key"`
	Schema      string         `json:"schema,omitempty"`
	Mode        string         `json:"mode"`
	Ranks       []int          `json:"ranks,omitempty"`
	Props       []string       `json:"props,omitempty"`
	Unsupported string         `json:"unsupported,omitempty"`
	Paths       int            `json:"paths"`
	Inlined     map[string]int `json:"inlined,omitempty"`
	Used        []string       `json:"callee_contracts,omitempty"`
	GenSeconds  float64        `json:"gen_s"`
	Obls        []*Obligation  `json:"-"`
	Trusted     bool           `json:"trusted,omitempty"`
	TrustedWhy  string         `json:"trusted_why,omitempty"`
	MaxRank     int            `json:"max_rank,omitempty"`
	File        string         `json:"file,omitempty"`
}

type VerifyOpts struct {
	MaxRank  int
	Prune    bool
	Thorough bool
}

func (P *Prog) VerifyFunc(key string, c *Contract, opts VerifyOpts) *FuncResult {
	return P.verifyWith(key, c, opts, nil)
}

func (P *Prog) verifyWith(key string, c *Contract, opts VerifyOpts, solv *Solvers) *FuncResult {
	fr := &FuncResult{Key: key, Schema: c.Schema, Mode: c.Mode, Props: c.Props, Inlined: map[string]int{}, File: P.fnFile[key]}
	fn := P.funcs[key]
	if c.Trusted {
		fr.Trusted = true
		return fr
	}
	if fn != nil && fn.Blocks == nil {
		// declared without a Go body under this tag set (assembly): the contract is trusted here
		fr.Trusted = true
		fr.TrustedWhy = "no Go body under these build tags (assembly implementation)"
		return fr
	}
	if fn == nil {
		fr.Unsupported = "no SSA body for " + key
		return fr
	}
	t0 := time.Now()
	used := map[string]bool{}
	run := func(rank int) {
		x := P.newExec(fn, key, c, rank)
		x.solv = solv
		x.solvRef = solv
		x.pruneWithSolver = opts.Prune || c.Config["prune"] == "solver"
		func() {
			defer func() {
				if r := recover(); r != nil {
					switch e := r.(type) {
					case unsupportedErr:
						fr.Unsupported = e.msg
					case error:
						fr.Unsupported = "error: " + e.Error()
						if strings.Contains(e.Error(), "runtime error") {
							fr.Unsupported += "\n" + string(debug.Stack())
						}
					default:
						fr.Unsupported = fmt.Sprintf("internal error: %v\n%s", r, debug.Stack())
					}
				}
			}()
			x.runTop()
		}()
		fr.Paths += x.paths + 1
		fr.Obls = append(fr.Obls, x.obls...)
		for k, n := range x.inlined {
			fr.Inlined[shortKey(k)] += n
		}
		for k := range x.usedContracts {
			used[shortKey(k)] = true
		}
	}
	if c.Mode == "rank" {
		maxRank := opts.MaxRank
		if v, ok := c.Config["maxrank_quick"]; ok && !opts.Thorough {
			fmt.Sscanf(v, "%d", &maxRank)
		}
		if v, ok := c.Config["maxrank_thorough"]; ok && opts.Thorough {
			var m int
			fmt.Sscanf(v, "%d", &m)
			if m < maxRank {
				maxRank = m
			}
		}
		if v, ok := c.Config["maxrank"]; ok {
			var m int
			fmt.Sscanf(v, "%d", &m)
			if m < maxRank {
				maxRank = m
			}
		}
		fr.MaxRank = maxRank
		for k := 0; k <= maxRank; k++ {
			if only := os.Getenv("GOVC_ONLYRANK"); only != "" && only != fmt.Sprint(k) {
				continue
			}
			fr.Ranks = append(fr.Ranks, k)
			run(k)
			if fr.Unsupported != "" {
				fr.Unsupported = fmt.Sprintf("rank %d: %s", k, fr.Unsupported)
				break
			}
		}
	} else {
		run(-1)
	}
	for k := range used {
		fr.Used = append(fr.Used, k)
	}
	sort.Strings(fr.Used)
	fr.GenSeconds = time.Since(t0).Seconds()
	return fr
}

func (P *Prog) newExec(fn *ssa.Function, key string, c *Contract, rank int) *Exec {
	x := &Exec{P: P, fn: fn, key: key, c: c, decls: NewDecls(), mapSorts: map[string]string{}, rank: rank,
		loopOf: map[*ssa.BasicBlock]*Loop{}, maxPaths: 6000, maxSteps: 400000,
		implIfaces: map[string]*types.Interface{}, rtypeUsed: map[int]types.Type{}, inlined: map[string]int{},
		usedContracts: map[string]bool{}, metaClauses: map[string]bool{}, probeCount: map[string]int{}, probeCands: map[string][]*Obligation{}, probePrio: map[string]int{}, specDefs: map[string]*specDef{}, entryLets: map[string]Value{}}
	if fn != nil {
		for _, l := range P.Loops(fn) {
			x.loopOf[l.Header] = l
		}
	}
	return x
}

func (x *Exec) runTop() {
	fn, c := x.fn, x.c
	if n := astLoopCount(fn); n >= 0 && n != len(x.P.Loops(fn)) {
		x.unsupportedf("loop shape: %d source loops, %d natural loops", n, len(x.P.Loops(fn)))
	}
	for _, cl := range c.Clauses {
		if cl.Loop >= len(x.P.Loops(fn)) && (cl.Kind == "invariant" || cl.Kind == "step" || cl.Kind == "decreases" || cl.Kind == "unroll") {
			if c.Schema != "" {
				continue // schema written for the looping variant; this instance delegates
			}
			x.unsupportedf("contract names loop %d but the function has %d loops", cl.Loop, len(x.P.Loops(fn)))
		}
	}
	st := &State{cells: map[*Cell]Value{}, heap: map[string]Term{}, loopHd: map[*Loop]*State{}, loopIt: map[*Loop]int{}}
	st.alloc = x.decls.Const("alloc0", SInt)
	st.alloc0 = st.alloc
	st.assume(Le(IntLit(1<<20), st.alloc)) // references below 2^20 are reserved (reflect.Type identities)
	fr := &Frame{fn: fn, regs: map[ssa.Value]Value{}, cells: map[*ssa.Alloc]*Cell{}, names: map[string]Value{}}
	st.frames = []*Frame{fr}
	for _, p := range fn.Params {
		v := x.paramValue(st, p.Type(), p.Name())
		fr.regs[p] = v
		fr.names[p.Name()] = v
	}
	if len(fn.FreeVars) > 0 {
		x.unsupportedf("closure with free variables as top-level function")
	}
	env := &Env{x: x, st: st, names: fr.names}
	// rank-bounded mode: fix the lengths of the named slices
	if x.rank >= 0 {
		for _, e := range c.RankVars {
			x.concretizeLen(st, env, e, x.rank)
		}
		for _, e := range c.RankEq {
			st.assume(Eq(env.evalInt(e), IntLit(int64(x.rank))))
		}
	}
	// config fixlen a=2,b=3 : give parameter slices a concrete length (rank-like)
	if fl, ok := c.Config["fixlen"]; ok {
		for _, kv := range strings.Split(fl, ",") {
			p := strings.SplitN(strings.TrimSpace(kv), "=", 2)
			if len(p) == 2 {
				var k int
				fmt.Sscanf(p[1], "%d", &k)
				x.concretizeLen(st, env, &Expr{Op: "id", Name: p[0]}, k)
			}
		}
	}
	for _, l := range c.Lets {
		v := env.eval(l.E)
		fr.names[l.Name] = v
		x.entryLets[l.Name] = v
	}
	hasAssigns := false
	for _, cl := range c.Clauses {
		switch cl.Kind {
		case "requires":
			st.assume(env.evalBool(cl.E))
		case "assigns":
			hasAssigns = true
			for _, e := range cl.Exprs {
				st.assign = append(st.assign, env.evalRegion(e)...)
			}
		}
	}
	if !hasAssigns && c.Config["frame"] == "any" {
		x.assignAll = true
	}
	st.freshLo = st.alloc
	x.entry = st.clone()
	// vacuity probe: the precondition must be satisfiable
	x.obls = append(x.obls, &Obligation{Name: shortKey(x.key) + "#vacuity:requires", Func: x.key, Kind: "vacuity", Label: "requires",
		Rank: x.rank, Hyps: append([]Term(nil), st.pc...), Goal: TFalse, decls: x.decls, prog: x, Canary: true, inputs: x.inputs})
	fr.ret = func(st2 *State, res []Value) { x.atReturn(st2, res) }
	// proof by cases on an entry expression
	for _, cl := range c.Clauses {
		if cl.Kind != "cases" {
			continue
		}
		subject := env.eval(cl.E)
		var others []Term
		for _, ve := range cl.Exprs {
			eq := env.valueEq(subject, env.eval(ve), cl.E)
			others = append(others, Not(eq))
			s2 := st.clone()
			s2.frames[0].ret = fr.ret
			s2.assume(eq)
			x.concretizeHeapRead(s2, subject, env.eval(ve))
			s2.path = append(s2.path, "case:"+ve.String())
			if !s2.dead {
				x.paths++
				x.execBlock(s2, nil, fn.Blocks[0])
			}
		}
		st.assume(And(others...))
		st.path = append(st.path, "case:else")
		break
	}
	x.execBlock(st, nil, fn.Blocks[0])
	x.flushProbes()
}

// flushProbes orders the clause-level vacuity probes: an evenly spread sample (at most 48 per
// clause and run) is tried first; the remaining candidates are kept in reserve (Late) and are only
// built and solved when no probe of the sample found a return path on which the antecedent holds.
func (x *Exec) flushProbes() {
	var labels []string
	for l := range x.probeCands {
		labels = append(labels, l)
	}
	sort.Strings(labels)
	for _, l := range labels {
		c := x.probeCands[l]
		const max = 48
		if len(c) <= max {
			x.obls = append(x.obls, c...)
			continue
		}
		picked := map[int]bool{}
		for k := 0; k < max; k++ {
			picked[k*(len(c)-1)/(max-1)] = true
		}
		for i, o := range c {
			if !picked[i] {
				o.Late = true
			}
			x.obls = append(x.obls, o)
		}
	}
	x.probeCands = map[string][]*Obligation{}
}

func (x *Exec) concretizeLen(st *State, env *Env, e *Expr, k int) {
	lit := IntLit(int64(k))
	switch e.Op {
	case "id":
		v, ok := env.names[e.Name].(SliceV)
		if !ok {
			x.unsupportedf("rank variable %s is not a slice", e)
		}
		st.assume(Eq(v.Len, lit))
		v.Len = lit
		env.names[e.Name] = v
		fr := st.frames[0]
		for _, p := range x.fn.Params {
			if p.Name() == e.Name {
				fr.regs[p] = v
			}
		}
		fr.names[e.Name] = v
	case "sel":
		np, ok := env.lvalue(e)
		if !ok {
			x.unsupportedf("rank variable %s: cannot resolve", e)
		}
		cur, ok := x.loadPtr(st, np).(SliceV)
		if !ok {
			x.unsupportedf("rank variable %s is not a slice", e)
		}
		st.assume(Eq(cur.Len, lit))
		cur.Len = lit
		x.storePtrNoCheck(st, np, cur)
	default:
		x.unsupportedf("rank variable %s", e)
	}
}

func (x *Exec) storePtrNoCheck(st *State, p PtrV, v Value) {
	old := x.assignAll
	x.assignAll = true
	x.storePtr(st, p, v, "")
	x.assignAll = old
}

func (x *Exec) atReturn(st *State, res []Value) {
	x.retPaths++
	fr := st.frames[0]
	names := map[string]Value{}
	for k, v := range fr.names {
		names[k] = v
	}
	sig := x.fn.Signature
	for i := 0; i < sig.Results().Len(); i++ {
		nm := sig.Results().At(i).Name()
		if nm == "" || nm == "_" {
			nm = fmt.Sprintf("result%d", i)
		}
		names[nm] = res[i]
	}
	if len(res) == 1 {
		names["result"] = res[0]
	}
	if len(x.c.Results) == len(res) {
		for i, n := range x.c.Results {
			names[n] = res[i]
		}
	}
	env := &Env{x: x, st: st, old: x.entry, names: names}
	for _, bd := range x.c.Binds {
		// the body must return exactly the location the contract binds the result to
		rv, ok1 := names[bd.Name].(PtrV)
		ev, ok2 := env.eval(bd.E).(PtrV)
		if !ok1 || !ok2 {
			x.unsupportedf("binds %s: not a pointer", bd.Name)
		}
		var g Term
		if bd.Cond != nil {
			ct := env.evalBool(bd.Cond)
			if ct.IsFalse() || impliedByPath(st, Not(ct)) || x.solverImplies(st, Not(ct)) {
				continue // the binding does not apply on this path
			}
			g = Implies(ct, ptrEq(rv, ev))
		} else {
			g = ptrEq(rv, ev)
		}
		x.addObl(st, "ensures", "binds_"+bd.Name, g, "", "result "+bd.Name+" is the location "+bd.E.String())
	}
	for _, cl := range x.c.Clauses {
		if cl.Kind == "ensures" {
			if strings.HasPrefix(cl.Label, "meta_") {
				// summary clause: follows from the loop's step clauses by induction on the number of
				// iterations (listed meta-argument); assumed by callers, not checked on the body
				x.metaClauses[cl.Label] = true
				continue
			}
			g := env.evalBool(cl.E)
			x.addObl(st, "ensures", cl.Label, g, "", cl.Src)
			// clause-level vacuity probe: the antecedent of an implication must be satisfiable on
			// at least one return path (over all paths and ranks), otherwise the clause proves nothing
			isImpl := cl.E.Op == "bin" && cl.E.Name == "==>"
			pk := cl.Label
			if len(st.path) > 0 && strings.HasPrefix(st.path[0], "case:") {
				pk += "|" + st.path[0]
			}
			if isImpl && (x.c.Schema == "" || x.probeCount[pk] < 400) && x.probeCount[pk] < 4000 {
				ante := env.evalBool(cl.E.Args[0])
				if ante.IsFalse() {
					continue
				}
				x.probeCount[pk]++
				if impliedByPath(st, ante) && x.probePrio[cl.Label] < 6 {
					// the path condition already contains the antecedent: a sure candidate witness
					x.probePrio[cl.Label]++
					x.obls = append(x.obls, &Obligation{Name: shortKey(x.key) + "#vacuity:" + cl.Label, Func: x.key, Kind: "vacuity", Label: cl.Label,
						Rank: x.rank, Hyps: append([]Term(nil), st.pc...), Goal: TFalse, decls: x.decls, prog: x, Canary: true, Path: strings.Join(st.path, ">"), inputs: x.inputs})
					continue
				}
				x.probeCands[cl.Label] = append(x.probeCands[cl.Label], &Obligation{Name: shortKey(x.key) + "#vacuity:" + cl.Label, Func: x.key, Kind: "vacuity", Label: cl.Label,
					Rank: x.rank, Hyps: append(append([]Term(nil), st.pc...), ante), Goal: TFalse, decls: x.decls, prog: x, Canary: true, Path: strings.Join(st.path, ">"), inputs: x.inputs})
			}
		}
	}
	if x.retPaths <= 8 {
		x.obls = append(x.obls, &Obligation{Name: shortKey(x.key) + "#vacuity:return", Func: x.key, Kind: "vacuity", Label: "return",
			Rank: x.rank, Hyps: append([]Term(nil), st.pc...), Goal: TFalse, decls: x.decls, prog: x, Canary: true, Path: strings.Join(st.path, ">"), inputs: x.inputs})
	}
}

func (x *Exec) loopEnvNames(st *State) map[string]Value {
	fr := st.frames[0]
	names := map[string]Value{}
	for a, c := range fr.cells {
		if a.Comment == "" {
			continue
		}
		if v, ok := st.cells[c]; ok {
			names[a.Comment] = v
		}
	}
	return names
}

// evalRegion turns an assigns target into heap regions.
func (e *Env) evalRegion(ex *Expr) []Region {
	switch ex.Op {
	case "slice":
		sv, ok := e.eval(ex.Args[0]).(SliceV)
		if !ok {
			e.fail("assigns: %s is not a slice", ex)
		}
		lo, hi := IntLit(0), sv.Len
		if ex.Args[1] != nil {
			lo = e.evalInt(ex.Args[1])
		}
		if ex.Args[2] != nil {
			hi = e.evalInt(ex.Args[2])
		}
		return []Region{{IsElem: true, Arr: sv.Arr, Lo: Add(sv.Off, lo), Hi: Add(sv.Off, hi), ElemKey: typeKey(sv.Elem), Desc: ex.String()}}
	case "index":
		sv := e.eval(ex.Args[0]).(SliceV)
		i := e.evalInt(ex.Args[1])
		return []Region{{IsElem: true, Arr: sv.Arr, Lo: Add(sv.Off, i), Hi: Add(sv.Off, Add(i, IntLit(1))), ElemKey: typeKey(sv.Elem), Desc: ex.String()}}
	case "call":
		if ex.Args[0].Op == "id" && ex.Args[0].Name == "gh" {
			ref := flattenSpec(e.eval(ex.Args[2]))
			return []Region{{Ref: ref[len(ref)-1], RootKey: "ghost", PathPref: ex.Args[1].Name, Desc: ex.String()}}
		}
		if ex.Args[0].Op == "id" && ex.Args[0].Name == "whole" {
			sv := e.eval(ex.Args[1]).(SliceV)
			return []Region{{IsElem: true, Arr: sv.Arr, ElemKey: typeKey(sv.Elem), Desc: ex.String()}}
		}
	case "sel":
		np, ok := e.lvalue(ex)
		if !ok || np.Kind != PHeap {
			e.fail("assigns: %s: cannot resolve to a heap field", ex)
		}
		return []Region{{Ref: np.Ref, RootKey: typeKey(np.Root), PathPref: pathName(np.Root, np.Path), Desc: ex.String()}}
	}
	v := e.eval(ex)
	switch u := v.(type) {
	case SliceV:
		return []Region{{IsElem: true, Arr: u.Arr, Lo: u.Off, Hi: Add(u.Off, u.Len), ElemKey: typeKey(u.Elem), Desc: ex.String()}}
	case PtrV:
		if u.Kind == PHeap {
			return []Region{{Ref: u.Ref, RootKey: typeKey(u.Root), PathPref: pathName(u.Root, u.Path), Desc: ex.String()}}
		}
	}
	e.fail("assigns: cannot interpret %s", ex)
	return nil
}

// ---------- spec functions as define-fun-rec ----------

func (x *Exec) specApply(e *Env, f *SpecFn, vals []Value) Value {
	var sig []string
	for _, v := range vals {
		for _, l := range flattenSpec(v) {
			sig = append(sig, smtSortName(l.Sort))
		}
		if pv, ok := v.(PtrV); ok && pv.Kind == PHeap && len(pv.Path) > 0 {
			// interior pointer: the instance is specific to the enclosing object type and field path
			sig = append(sig, "in_"+typeKey(pv.Root)+"_"+pathName(pv.Root, pv.Path))
		}
		if sv, ok := v.(SliceV); ok {
			sig = append(sig, typeKey(sv.Elem))
		}
	}
	name := smtName(f.Name + "$" + strings.Join(sig, "_"))
	retSort := SInt
	if f.Ret == "bool" {
		retSort = SBool
	}
	if strings.HasPrefix(f.Ret, "like") {
		pn := strings.TrimSpace(strings.TrimPrefix(f.Ret, "like"))
		for i, p := range f.Params {
			if p == pn {
				retSort = flattenSpec(vals[i])[0].Sort
			}
		}
	}
	def := x.specDefs[name]
	if def == nil {
		def = &specDef{name: name, mapIx: map[string]bool{}}
		x.specDefs[name] = def
		// formals
		names := map[string]Value{}
		var formals []Term
		for i, p := range f.Params {
			ls := flattenSpec(vals[i])
			fs := make([]Term, len(ls))
			for j, l := range ls {
				fs[j] = Term{fmt.Sprintf("%s!f%d", smtName(p), j), l.Sort}
				formals = append(formals, fs[j])
			}
			names[p] = rebuild(vals[i], fs)
		}
		arrFormal := func(pi int) string {
			if sv, ok := names[f.Params[pi]].(SliceV); ok {
				return sv.Arr.S
			}
			return ""
		}
		var body Term
		for pass := 0; pass < 4; pass++ {
			dst := &State{cells: map[*Cell]Value{}, heap: map[string]Term{}, loopHd: map[*Loop]*State{}, loopIt: map[*Loop]int{}, formal: def}
			dst.alloc = Term{"alloc!f", SInt}
			def.building = true
			def.pass = pass
			env := &Env{x: x, st: dst, names: names, defMode: def, depth: 0}
			body = env.eval(f.Body).(Scalar).T
			def.building = false
			// which heap formals does the body need? prefer the inner array of a slice parameter
			// (select M arr) over the whole map M, so that writes to other arrays do not matter
			var hf []heapFormal
			txt := body.S
			for _, m := range def.maps {
				for pi := range f.Params {
					af := arrFormal(pi)
					if af == "" {
						continue
					}
					pat := "(select " + m.name + "$f " + af + ")"
					if strings.Contains(txt, pat) {
						hf = append(hf, heapFormal{m: m, param: pi})
						txt = strings.ReplaceAll(txt, pat, innerName(m, pi))
					}
				}
			}
			for _, m := range def.maps {
				if strings.Contains(txt, m.name+"$f") {
					hf = append(hf, heapFormal{m: m, param: -1})
				}
			}
			stable := len(hf) == len(def.heapFormals)
			if stable {
				for k := range hf {
					if hf[k] != def.heapFormals[k] {
						stable = false
					}
				}
			}
			def.heapFormals = hf
			if stable && pass > 0 {
				body = Term{txt, body.Sort}
				break
			}
			body = Term{txt, body.Sort}
		}
		var ps []string
		for _, h := range def.heapFormals {
			if h.param >= 0 {
				ps = append(ps, fmt.Sprintf("(%s %s)", innerName(h.m, h.param), elemSortOfArray(h.m.sort)))
			} else {
				ps = append(ps, fmt.Sprintf("(%s %s)", h.m.name+"$f", h.m.sort))
			}
		}
		for _, fo := range formals {
			ps = append(ps, fmt.Sprintf("(%s %s)", fo.S, fo.Sort))
		}
		// facts assumed inside the definitional state are dropped (they are type invariants)
		x.decls.Raw(name, fmt.Sprintf("(define-fun-rec %s (%s) %s %s)", name, strings.Join(ps, " "), retSort, body.S))
	}
	var args []Term
	if def.building && def.pass == 0 {
		return Scalar{Term{"dummy!" + retSort, retSort}}
	}
	for _, h := range def.heapFormals {
		var mt Term
		if def.building {
			mt = Term{h.m.name + "$f", h.m.sort}
		} else {
			mt = x.heapGet(e.st, h.m)
		}
		if h.param >= 0 {
			sv, ok := vals[h.param].(SliceV)
			if !ok {
				panic(fmt.Errorf("spec function %s: argument %d is not a slice", f.Name, h.param))
			}
			args = append(args, Select(mt, sv.Arr))
		} else {
			args = append(args, mt)
		}
	}
	for _, v := range vals {
		args = append(args, flattenSpec(v)...)
	}
	return Scalar{App(retSort, name, args...)}
}

type heapFormal struct {
	m     mapRef
	param int // index of the slice parameter whose inner array is passed; -1: the whole map
}

func innerName(m mapRef, pi int) string { return fmt.Sprintf("%s$in%d", m.name, pi) }

// concretizeHeapRead: after assuming (select M ref) == literal for a current heap map M, later
// reads of that location fold to the literal (used by "cases" on a length stored in the heap).
func (x *Exec) concretizeHeapRead(st *State, subject, val Value) {
	ss, ok1 := subject.(Scalar)
	vs, ok2 := val.(Scalar)
	if !ok1 || !ok2 {
		return
	}
	if _, lit := vs.T.IsLit(); !lit || !strings.HasPrefix(ss.T.S, "(select ") {
		return
	}
	body := ss.T.S[len("(select ") : len(ss.T.S)-1]
	e1 := sexprEnd(body, 0)
	mp, ref := strings.TrimSpace(body[:e1]), strings.TrimSpace(body[e1:])
	for name, cur := range st.heap {
		if cur.S == mp {
			st.heap[name] = Store(cur, Term{ref, SInt}, vs.T)
			return
		}
	}
}

// impliedByPath: every top-level conjunct of t is literally part of the path condition.
func impliedByPath(st *State, t Term) bool {
	if t.IsTrue() {
		return true
	}
	if st.pcSet == nil {
		st.pcSet = map[string]bool{}
		for _, p := range st.pc {
			st.pcSet[p.S] = true
		}
	}
	var conj func(s string) bool
	conj = func(s string) bool {
		if st.pcSet[s] {
			return true
		}
		if strings.HasPrefix(s, "(and ") {
			body := s[5 : len(s)-1]
			i := 0
			for i < len(body) {
				e := sexprEnd(body, i)
				part := strings.TrimSpace(body[i:e])
				if part != "" && !conj(part) {
					return false
				}
				i = e
			}
			return true
		}
		return false
	}
	return conj(t.S)
}

// flattenSpec is flatten for arguments of specification functions: an interior pointer into a heap
// object is passed as the object's reference (the field path is part of the instance's name).
func flattenSpec(v Value) []Term {
	if pv, ok := v.(PtrV); ok && pv.Kind == PHeap {
		return []Term{pv.Ref}
	}
	return flatten(v)
}
