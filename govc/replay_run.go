package main

import (
	"encoding/json"
	"fmt"
	"go/types"
	"os"
	"os/exec"
	"path/filepath"
	"regexp"
	"sort"
	"strconv"
	"strings"
	"time"
)

// ---------- concrete values ----------

type CV struct {
	Kind   string // int bool bv abs slice ptr struct iface
	Int    int64
	Bool   bool
	Abs    string
	Nil    bool
	Len    int64
	Cap    int64
	Elems  []*CV
	Fields []*CV
	Ptr    *CV
	Dyn    types.Type // dynamic type of an interface value
	Box    *CV
	T      types.Type
}

type modelReader struct {
	o        *Obligation
	solv     *Solvers
	pins     []Term
	deadline time.Time
	n        int
	err      error
}

var getValueRe = regexp.MustCompile(`(?s)^\s*\(\((.*)\)\)\s*$`)

// get asks the solver for the value of term under the failing query (+ earlier answers pinned).
func (m *modelReader) get(t Term) string {
	if _, ok := t.IsLit(); ok {
		return t.S
	}
	if t.IsTrue() || t.IsFalse() {
		return t.S
	}
	m.n++
	if m.n > 150 || (!m.deadline.IsZero() && time.Now().After(m.deadline)) {
		m.err = fmt.Errorf("model extraction budget exhausted (%d lookups)", m.n)
		return "0"
	}
	q := m.o.Query
	// make sure every symbol of t is declared: terms come from the same Exec, so they are
	text := "(set-option :produce-models true)\n(set-logic ALL)\n" + m.o.queryWith(t, m.pins) + "(check-sat)\n(get-value (" + t.S + "))\n"
	_ = q
	file := filepath.Join(m.solv.dir, fmt.Sprintf("mv%d.smt2", m.n))
	os.WriteFile(file, []byte(text), 0o644)
	defer os.Remove(file)
	out := m.solv.spawn([]string{"z3-new", "-T:6", file}, 8*time.Second)
	lines := strings.SplitN(strings.TrimSpace(out), "\n", 2)
	if len(lines) < 2 || strings.TrimSpace(lines[0]) != "sat" {
		m.err = fmt.Errorf("model lookup for %s: %s", t.S, strings.TrimSpace(out))
		return "0"
	}
	body := strings.TrimSpace(lines[1])
	// ((term value))
	if !strings.HasPrefix(body, "((") {
		m.err = fmt.Errorf("unexpected get-value output %q", body)
		return "0"
	}
	inner := body[2 : len(body)-2]
	// value is the last s-expr
	e1 := sexprEnd(inner, 0)
	val := strings.TrimSpace(inner[e1:])
	if !strings.Contains(val, "!val!") {
		m.pins = append(m.pins, Term{fmt.Sprintf("(= %s %s)", t.S, val), SBool})
	}
	return val
}

// satWith: is the failing query still satisfiable with the pins and one more assumption?
func (m *modelReader) satWith(extra Term) bool {
	m.n++
	o2 := *m.o
	o2.Hyps = append(append(append([]Term(nil), m.o.Hyps...), m.pins...), extra)
	text := "(set-logic ALL)\n" + o2.BuildQuery() + "(check-sat)\n"
	file := filepath.Join(m.solv.dir, fmt.Sprintf("ms%d.smt2", m.n))
	os.WriteFile(file, []byte(text), 0o644)
	defer os.Remove(file)
	out := m.solv.spawn([]string{"z3-new", "-T:10", file}, 15*time.Second)
	return strings.TrimSpace(strings.SplitN(out, "\n", 2)[0]) == "sat"
}

// queryWith rebuilds the query making sure the declarations needed by extra are present.
func (o *Obligation) queryWith(extra Term, pins []Term) string {
	o2 := *o
	o2.Hyps = append(append([]Term(nil), o.Hyps...), pins...)
	o2.Hyps = append(o2.Hyps, Term{"(= " + extra.S + " " + extra.S + ")", SBool})
	return o2.BuildQuery()
}

func parseSMTInt(s string) (int64, bool) {
	s = strings.TrimSpace(s)
	if strings.HasPrefix(s, "(- ") {
		n, err := strconv.ParseInt(strings.TrimSpace(s[3:len(s)-1]), 10, 64)
		return -n, err == nil
	}
	if strings.HasPrefix(s, "#x") {
		n, err := strconv.ParseInt(s[2:], 16, 64)
		return n, err == nil
	}
	if strings.HasPrefix(s, "#b") {
		n, err := strconv.ParseInt(s[2:], 2, 64)
		return n, err == nil
	}
	n, err := strconv.ParseInt(s, 10, 64)
	return n, err == nil
}

const maxReplayLen = 12

// extract reads the concrete value of a symbolic entry value from the model.
func (m *modelReader) extract(x *Exec, st *State, t types.Type, v Value, depth int) *CV {
	if depth > 5 {
		m.err = fmt.Errorf("input too deep")
		return &CV{Kind: "int", T: t}
	}
	switch u := v.(type) {
	case Scalar:
		s := m.get(u.T)
		switch {
		case u.T.Sort == SBool:
			return &CV{Kind: "bool", Bool: s == "true", T: t}
		case u.T.Sort == SInt || strings.HasPrefix(u.T.Sort, "(_ BitVec"):
			n, ok := parseSMTInt(s)
			if !ok {
				m.err = fmt.Errorf("cannot parse model value %q", s)
			}
			return &CV{Kind: "int", Int: n, T: t}
		default:
			return &CV{Kind: "abs", Abs: s, T: t}
		}
	case SliceV:
		arr, _ := parseSMTInt(m.get(u.Arr))
		n, _ := parseSMTInt(m.get(u.Len))
		c, _ := parseSMTInt(m.get(u.Cap))
		cv := &CV{Kind: "slice", Len: n, Cap: c, Nil: arr == 0, T: t}
		if n > maxReplayLen {
			m.err = fmt.Errorf("model has a slice of length %d (> %d)", n, maxReplayLen)
			return cv
		}
		if c > n+16 {
			cv.Cap = n + 16
		}
		for i := int64(0); i < n; i++ {
			ev := x.loadPtr(st, PtrV{Kind: PElem, Arr: u.Arr, Idx: Idx(u.Off, IntLit(i)), Root: u.Elem})
			cv.Elems = append(cv.Elems, m.extract(x, st, u.Elem, ev, depth+1))
		}
		return cv
	case PtrV:
		if u.Kind != PHeap || len(u.Path) != 0 {
			m.err = fmt.Errorf("unsupported pointer input")
			return &CV{Kind: "ptr", Nil: true, T: t}
		}
		ref, _ := parseSMTInt(m.get(u.Ref))
		cv := &CV{Kind: "ptr", Nil: ref == 0, T: t}
		if ref != 0 {
			cv.Ptr = m.extract(x, st, u.Root, x.loadPtr(st, u), depth+1)
		}
		return cv
	case StructV:
		cv := &CV{Kind: "struct", T: t}
		for i, f := range u.Fields {
			cv.Fields = append(cv.Fields, m.extract(x, st, u.T.Field(i).Type(), f, depth+1))
		}
		return cv
	case IfaceV:
		if t.String() == "reflect.Type" {
			// choose one of the known element types for a reflect.Type input if the model allows it
			ids := make([]int, 0, len(x.P.rtypeNames))
			x.P.mu.Lock()
			for id := range x.P.rtypeNames {
				ids = append(ids, id)
			}
			x.P.mu.Unlock()
			sort.Ints(ids)
			for _, id := range ids {
				bt, ok := basicByName[x.P.rtypeNames[id]]
				if !ok {
					continue
				}
				pin := Term{fmt.Sprintf("(= %s %d)", u.Val.S, id), SBool}
				if m.satWith(pin) {
					m.pins = append(m.pins, pin)
					x.rtypeUsed[id] = bt
					return &CV{Kind: "rtype", Dyn: bt, T: t}
				}
			}
			return &CV{Kind: "iface", Nil: true, T: t}
		}
		tag, _ := parseSMTInt(m.get(u.Tag))
		cv := &CV{Kind: "iface", Nil: tag == 0, T: t}
		if wt := m.witnessFor(x, t); wt != nil && tag != 0 {
			// build a witness object whose pure methods return what the model says
			dt := x.P.lookupType(wt.Type)
			st2, ok := dt.Underlying().(*types.Struct)
			if !ok {
				m.err = fmt.Errorf("witness type %s is not a struct", wt.Type)
				return cv
			}
			box := &CV{Kind: "struct", T: dt}
			for i := 0; i < st2.NumFields(); i++ {
				fcv := &CV{Kind: "int", T: st2.Field(i).Type()}
				for meth, fld := range wt.Fields {
					if fld != st2.Field(i).Name() {
						continue
					}
					key := expandKey(wt.Iface) + "." + meth
					r := x.pureIfaceCall(st, key, u, nil, x.P.ifaceMethodSig(key))
					if sc, ok := r.(Scalar); ok {
						n, _ := parseSMTInt(m.get(sc.T))
						fcv.Int = n
					}
				}
				box.Fields = append(box.Fields, fcv)
			}
			cv.Dyn = dt
			cv.Box = box
			return cv
		}
		if tag != 0 {
			x.P.mu.Lock()
			if tag < 1 || int(tag) > len(x.P.tagTypes) {
				x.P.mu.Unlock()
				m.err = fmt.Errorf("model picks an unknown dynamic type (tag %d) for an interface input", tag)
				return cv
			}
			dt := x.P.tagTypes[tag-1]
			x.P.mu.Unlock()
			cv.Dyn = dt
			cv.Box = m.extract(x, st, dt, x.unbox(st, dt, u.Val), depth+1)
		}
		return cv
	}
	m.err = fmt.Errorf("unsupported input value %T", v)
	return &CV{Kind: "int", T: t}
}

// ---------- Go source for concrete values ----------

func qualifier(pkgPath string) types.Qualifier {
	return func(p *types.Package) string {
		if p.Path() == pkgPath {
			return ""
		}
		return p.Name()
	}
}

func (cv *CV) goExpr(q types.Qualifier) (string, error) {
	ts := types.TypeString(cv.T, q)
	switch cv.Kind {
	case "int":
		if b, ok := cv.T.Underlying().(*types.Basic); ok && b.Info()&types.IsUnsigned != 0 && cv.Int < 0 {
			return "", fmt.Errorf("negative value for unsigned type")
		}
		return fmt.Sprintf("%s(%d)", ts, cv.Int), nil
	case "bool":
		return fmt.Sprintf("%s(%v)", ts, cv.Bool), nil
	case "abs":
		// value of an abstract sort: the zero value is tried (the replay is validated on the real code anyway)
		if b, ok := cv.T.Underlying().(*types.Basic); ok && b.Info()&types.IsString != 0 {
			return ts + `("")`, nil
		}
		if b, ok := cv.T.Underlying().(*types.Basic); ok && b.Kind() == types.UnsafePointer {
			return ts + "(nil)", nil
		}
		return fmt.Sprintf("%s(0)", ts), nil
	case "slice":
		if cv.Nil {
			return fmt.Sprintf("%s(nil)", ts), nil
		}
		var es []string
		for _, e := range cv.Elems {
			s, err := e.goExpr(q)
			if err != nil {
				return "", err
			}
			es = append(es, s)
		}
		lit := fmt.Sprintf("%s{%s}", ts, strings.Join(es, ", "))
		if cv.Cap > cv.Len {
			return fmt.Sprintf("append(make(%s, 0, %d), %s...)", ts, cv.Cap, lit), nil
		}
		return lit, nil
	case "ptr":
		if cv.Nil {
			return fmt.Sprintf("(%s)(nil)", ts), nil
		}
		s, err := cv.Ptr.goExpr(q)
		if err != nil {
			return "", err
		}
		return "&" + s, nil
	case "struct":
		st := cv.T.Underlying().(*types.Struct)
		var fs []string
		for i, f := range cv.Fields {
			s, err := f.goExpr(q)
			if err != nil {
				return "", err
			}
			fs = append(fs, fmt.Sprintf("%s: %s", st.Field(i).Name(), s))
		}
		return fmt.Sprintf("%s{%s}", ts, strings.Join(fs, ", ")), nil
	case "rtype":
		return fmt.Sprintf("reflect.TypeOf(%s)", zeroExpr(cv.Dyn)), nil
	case "iface":
		if cv.Nil {
			return fmt.Sprintf("%s(nil)", ts), nil
		}
		s, err := cv.Box.goExpr(q)
		if err != nil {
			return "", err
		}
		return fmt.Sprintf("%s(%s)", ts, s), nil
	}
	return "", fmt.Errorf("cannot render %s", cv.Kind)
}

func zeroExpr(t types.Type) string {
	b, _ := t.Underlying().(*types.Basic)
	switch {
	case b == nil:
		return "nil"
	case b.Info()&types.IsString != 0:
		return `""`
	case b.Info()&types.IsBoolean != 0:
		return "false"
	case b.Kind() == types.UnsafePointer:
		return "unsafe.Pointer(nil)"
	}
	return b.Name() + "(0)"
}

func (cv *CV) toJSON() interface{} {
	switch cv.Kind {
	case "rtype":
		return "reflect.TypeOf(" + cv.Dyn.String() + ")"
	case "int":
		return cv.Int
	case "bool":
		return cv.Bool
	case "abs":
		return cv.Abs
	case "slice":
		if cv.Nil {
			return nil
		}
		out := []interface{}{}
		for _, e := range cv.Elems {
			out = append(out, e.toJSON())
		}
		return out
	case "ptr":
		if cv.Nil {
			return nil
		}
		return map[string]interface{}{"&": cv.Ptr.toJSON()}
	case "struct":
		st := cv.T.Underlying().(*types.Struct)
		out := map[string]interface{}{}
		for i, f := range cv.Fields {
			out[st.Field(i).Name()] = f.toJSON()
		}
		return out
	case "iface":
		if cv.Nil {
			return nil
		}
		return map[string]interface{}{"type": cv.Dyn.String(), "value": cv.Box.toJSON()}
	}
	return nil
}

// ---------- running the real code ----------

const replayDumper = `
func govcDump(v reflect.Value, depth int) interface{} {
	if depth > 6 {
		return nil
	}
	switch v.Kind() {
	case reflect.Bool:
		return v.Bool()
	case reflect.Int, reflect.Int8, reflect.Int16, reflect.Int32, reflect.Int64:
		return v.Int()
	case reflect.Uint, reflect.Uint8, reflect.Uint16, reflect.Uint32, reflect.Uint64, reflect.Uintptr:
		return int64(v.Uint())
	case reflect.Slice:
		if v.IsNil() {
			return map[string]interface{}{"nil": true, "len": 0, "cap": 0, "elems": []interface{}{}}
		}
		es := []interface{}{}
		for i := 0; i < v.Len() && i < 64; i++ {
			es = append(es, govcDump(v.Index(i), depth+1))
		}
		return map[string]interface{}{"nil": false, "len": v.Len(), "cap": v.Cap(), "elems": es}
	case reflect.Ptr:
		if v.IsNil() {
			return map[string]interface{}{"nil": true}
		}
		return map[string]interface{}{"nil": false, "elem": govcDump(v.Elem(), depth+1)}
	case reflect.Interface:
		if v.IsNil() {
			return map[string]interface{}{"nil": true}
		}
		return map[string]interface{}{"nil": false, "type": v.Elem().Type().String(), "value": govcDump(v.Elem(), depth+1)}
	case reflect.Struct:
		fs := []interface{}{}
		for i := 0; i < v.NumField(); i++ {
			fs = append(fs, govcDump(v.Field(i), depth+1))
		}
		return map[string]interface{}{"fields": fs}
	}
	return map[string]interface{}{"unsupported": v.Kind().String()}
}
`

func (P *Prog) replayOnRealCode(o *Obligation, file string) *ReplayResult {
	x := o.prog
	rr := &ReplayResult{}
	if x == nil || x.fn == nil || x.entry == nil || x.solvRef == nil {
		rr.Why = "no execution context"
		return rr
	}
	fn := x.fn
	if fn.Pkg == nil {
		rr.Why = "function outside the repository packages"
		return rr
	}
	m := &modelReader{o: o, solv: x.solvRef, deadline: time.Now().Add(75 * time.Second)}
	entry := x.entry
	var cvs []*CV
	for _, p := range fn.Params {
		v := entry.frames[0].names[p.Name()]
		cvs = append(cvs, m.extract(x, entry, p.Type(), v, 0))
		if m.err != nil {
			rr.Why = "model extraction: " + m.err.Error()
			return rr
		}
	}
	rr.Inputs = map[string]interface{}{}
	pkgPath := fn.Pkg.Pkg.Path()
	q := qualifier(pkgPath)
	var argExprs []string
	for i, p := range fn.Params {
		rr.Inputs[p.Name()] = cvs[i].toJSON()
		s, err := cvs[i].goExpr(q)
		if err != nil {
			rr.Why = "cannot build input " + p.Name() + ": " + err.Error()
			return rr
		}
		argExprs = append(argExprs, s)
	}
	outs, src, log, err := P.runReal(fn.Pkg.Pkg.Path(), fn.Pkg.Pkg.Name(), fnCallExpr(fn), fn.Signature, argExprs, fn.Signature.Variadic(), file)
	rr.TestSrc = src
	rr.Log = log
	if err != nil {
		rr.Why = "running the real code: " + err.Error()
		return rr
	}
	rr.Outputs = outs
	violated, why := P.evalConcrete(x, cvs, outs)
	rr.Violated = violated
	if len(violated) > 0 {
		rr.Replayed = true
		rr.Why = "the real code violates the listed ensures clauses on the model's input"
	} else if why != "" {
		rr.Why = why
	} else {
		rr.Why = "the real code satisfies every ensures clause on the model's input (the counterexample is a state of the proof, e.g. a non-inductive invariant, not an execution)"
	}
	return rr
}

func fnCallExpr(fn interface {
	Name() string
}) string {
	return fn.Name()
}

// runReal builds an in-package test with the inputs, runs it via go test -overlay and returns the dumped outputs.
func (P *Prog) runReal(pkgPath, pkgName, fname string, sig *types.Signature, args []string, variadic bool, file string) (map[string]interface{}, string, string, error) {
	tmp, err := os.MkdirTemp("", "govc-replay-")
	if err != nil {
		return nil, "", "", err
	}
	defer os.RemoveAll(tmp)
	var sb strings.Builder
	extra := ""
	joined := strings.Join(args, " ")
	seen := map[string]bool{}
	for _, pp := range P.prog.AllPackages() {
		n, path := pp.Pkg.Name(), pp.Pkg.Path()
		if n == pkgName || seen[n] || n == "reflect" || n == "fmt" || n == "os" || n == "testing" || n == "json" {
			continue
		}
		if regexp.MustCompile(`\b`+regexp.QuoteMeta(n)+`\.[A-Za-z]`).MatchString(joined) && (strings.HasPrefix(path, "gorgonia.org/") || !strings.Contains(path, ".")) {
			seen[n] = true
			extra += fmt.Sprintf("\t%q\n", path)
		}
	}
	fmt.Fprintf(&sb, "package %s\n\nimport (\n\t\"encoding/json\"\n\t\"fmt\"\n\t\"os\"\n\t\"reflect\"\n\t\"testing\"\n%s)\n", pkgName, extra)
	sb.WriteString(replayDumper)
	sb.WriteString("\nfunc TestGovcReplay(t *testing.T) {\n")
	var names []string
	for i, a := range args {
		fmt.Fprintf(&sb, "\tp%d := %s\n", i, a)
		names = append(names, fmt.Sprintf("p%d", i))
	}
	sb.WriteString("\tout := map[string]interface{}{}\n")
	sb.WriteString("\tfunc() {\n\t\tdefer func() {\n\t\t\tif r := recover(); r != nil {\n\t\t\t\tout[\"panic\"] = fmt.Sprint(r)\n\t\t\t}\n\t\t}()\n")
	call := ""
	callArgs := append([]string(nil), names...)
	if sig.Recv() != nil {
		recv := callArgs[0]
		callArgs = callArgs[1:]
		call = recv + "." + fname
	} else {
		call = fname
	}
	if variadic && len(callArgs) > 0 {
		callArgs[len(callArgs)-1] += "..."
	}
	nres := sig.Results().Len()
	var rs []string
	for i := 0; i < nres; i++ {
		rs = append(rs, fmt.Sprintf("r%d", i))
	}
	if nres > 0 {
		fmt.Fprintf(&sb, "\t\t%s := %s(%s)\n", strings.Join(rs, ", "), call, strings.Join(callArgs, ", "))
		sb.WriteString("\t\tres := []interface{}{}\n")
		for _, r := range rs {
			fmt.Fprintf(&sb, "\t\tres = append(res, govcDump(reflect.ValueOf(&%s).Elem(), 0))\n", r)
		}
		sb.WriteString("\t\tout[\"results\"] = res\n")
	} else {
		fmt.Fprintf(&sb, "\t\t%s(%s)\n", call, strings.Join(callArgs, ", "))
	}
	sb.WriteString("\t}()\n")
	sb.WriteString("\tps := []interface{}{}\n")
	for _, n := range names {
		fmt.Fprintf(&sb, "\tps = append(ps, govcDump(reflect.ValueOf(&%s).Elem(), 0))\n", n)
	}
	sb.WriteString("\tout[\"params\"] = ps\n")
	sb.WriteString("\tdata, _ := json.Marshal(out)\n\tos.WriteFile(os.Getenv(\"GOVC_REPLAY_OUT\"), data, 0644)\n}\n")
	src := sb.String()
	rel := strings.TrimPrefix(pkgPath, pkgTensor)
	dir := filepath.Join(P.repo, rel)
	testFile := filepath.Join(tmp, "zz_govc_replay_test.go")
	os.WriteFile(testFile, []byte(src), 0o644)
	ov := map[string]interface{}{"Replace": map[string]string{filepath.Join(dir, "zz_govc_replay_test.go"): testFile}}
	ovData, _ := json.Marshal(ov)
	ovFile := filepath.Join(tmp, "overlay.json")
	os.WriteFile(ovFile, ovData, 0o644)
	outFile := filepath.Join(tmp, "out.json")
	cmd := exec.Command("bash", "-c", fmt.Sprintf("ulimit -v 8000000; cd %s && go test -tags %s -overlay %s -vet=off -count=1 -timeout 60s -run '^TestGovcReplay$' .", dir, P.tags, ovFile))
	cmd.Env = append(os.Environ(), "GOFLAGS=-mod=mod", "GOPROXY=off", "GOSUMDB=off", "GOTOOLCHAIN=local", "GOVC_REPLAY_OUT="+outFile)
	logb, runErr := cmd.CombinedOutput()
	data, err := os.ReadFile(outFile)
	if err != nil {
		return nil, src, string(logb), fmt.Errorf("no output from replay test (%v)", runErr)
	}
	var outs map[string]interface{}
	if err := json.Unmarshal(data, &outs); err != nil {
		return nil, src, string(logb), err
	}
	return outs, src, string(logb), nil
}

// ---------- evaluating the ensures clauses on the concrete pre/post states ----------

type concBuilder struct {
	x    *Exec
	next int64
}

func (b *concBuilder) ref() Term {
	b.next++
	return IntLit(b.next)
}

// build stores a concrete value into st and returns the symbolic Value denoting it.
func (b *concBuilder) build(st *State, cv *CV) Value {
	x := b.x
	switch cv.Kind {
	case "int":
		s := sortOf(cv.T)
		if s == SInt {
			return Scalar{IntLit(cv.Int)}
		}
		if strings.HasPrefix(s, "(_ BitVec") {
			var w int
			fmt.Sscanf(s, "(_ BitVec %d)", &w)
			return Scalar{Term{fmt.Sprintf("(_ bv%d %d)", cv.Int, w), s}}
		}
		return Scalar{x.decls.Const("lit_"+s+"_"+sanitize(fmt.Sprint(cv.Int)), s)}
	case "bool":
		return Scalar{BoolLit(cv.Bool)}
	case "abs":
		return Scalar{x.decls.Fresh("abs", sortOf(cv.T))}
	case "slice":
		elem := cv.T.Underlying().(*types.Slice).Elem()
		if cv.Nil {
			return SliceV{IntLit(0), IntLit(0), IntLit(0), IntLit(0), elem}
		}
		r := b.ref()
		sv := SliceV{r, IntLit(0), IntLit(cv.Len), IntLit(cv.Cap), elem}
		for i, e := range cv.Elems {
			x.storePtrNoCheck(st, PtrV{Kind: PElem, Arr: r, Idx: IntLit(int64(i)), Root: elem}, b.build(st, e))
		}
		return sv
	case "ptr":
		root := cv.T.Underlying().(*types.Pointer).Elem()
		if cv.Nil {
			return PtrV{Kind: PHeap, Ref: IntLit(0), Root: root}
		}
		r := b.ref()
		p := PtrV{Kind: PHeap, Ref: r, Root: root}
		x.storePtrNoCheck(st, p, b.build(st, cv.Ptr))
		return p
	case "struct":
		sv := StructV{T: cv.T.Underlying().(*types.Struct)}
		for _, f := range cv.Fields {
			sv.Fields = append(sv.Fields, b.build(st, f))
		}
		return sv
	case "rtype":
		return x.rtypeValue(st, cv.Dyn)
	case "iface":
		if cv.Nil {
			return IfaceV{IntLit(0), IntLit(0)}
		}
		tag := IntLit(int64(x.P.typeTag(cv.Dyn)))
		if _, isPtr := cv.Dyn.Underlying().(*types.Pointer); isPtr {
			pv := b.build(st, cv.Box).(PtrV)
			return IfaceV{tag, pv.Ref}
		}
		r := b.ref()
		x.storePtrNoCheck(st, PtrV{Kind: PHeap, Ref: r, Root: cv.Dyn}, b.build(st, cv.Box))
		iv := IfaceV{tag, r}
		// pure interface methods of a witness object return its fields
		if n, ok := cv.T.(*types.Named); ok && n.Obj().Pkg() != nil {
			if wt := x.P.db.Witnesses[n.Obj().Pkg().Path()+"."+n.Obj().Name()]; wt != nil && cv.Box.Kind == "struct" {
				if st2, ok := cv.Dyn.Underlying().(*types.Struct); ok && types.Identical(cv.Dyn, x.P.lookupType(wt.Type)) {
					for meth, fld := range wt.Fields {
						for i := 0; i < st2.NumFields(); i++ {
							if st2.Field(i).Name() == fld && cv.Box.Fields[i].Kind == "int" {
								key := expandKey(wt.Iface) + "." + meth
								if rv, ok := x.pureIfaceCall(st, key, iv, nil, x.P.ifaceMethodSig(key)).(Scalar); ok {
									st.assume(Eq(rv.T, IntLit(cv.Box.Fields[i].Int)))
								}
							}
						}
					}
				}
			}
		}
		return iv
	}
	panic("concBuilder: " + cv.Kind)
}

// cvFromDump converts the reflect dump of a Go value of static type t into a CV.
func (P *Prog) cvFromDump(t types.Type, d interface{}) (*CV, error) {
	switch u := t.Underlying().(type) {
	case *types.Basic:
		switch {
		case u.Info()&types.IsBoolean != 0:
			b, _ := d.(bool)
			return &CV{Kind: "bool", Bool: b, T: t}, nil
		case u.Info()&types.IsInteger != 0:
			f, ok := d.(float64)
			if !ok {
				return nil, fmt.Errorf("expected number for %s", t)
			}
			return &CV{Kind: "int", Int: int64(f), T: t}, nil
		}
		return nil, fmt.Errorf("unsupported basic type %s in outputs", t)
	case *types.Slice:
		m, _ := d.(map[string]interface{})
		cv := &CV{Kind: "slice", T: t}
		if m == nil {
			return nil, fmt.Errorf("bad slice dump")
		}
		cv.Nil, _ = m["nil"].(bool)
		l, _ := m["len"].(float64)
		c, _ := m["cap"].(float64)
		cv.Len, cv.Cap = int64(l), int64(c)
		es, _ := m["elems"].([]interface{})
		for _, e := range es {
			ec, err := P.cvFromDump(u.Elem(), e)
			if err != nil {
				return nil, err
			}
			cv.Elems = append(cv.Elems, ec)
		}
		return cv, nil
	case *types.Pointer:
		m, _ := d.(map[string]interface{})
		cv := &CV{Kind: "ptr", T: t}
		if m == nil {
			return nil, fmt.Errorf("bad pointer dump")
		}
		cv.Nil, _ = m["nil"].(bool)
		if !cv.Nil {
			p, err := P.cvFromDump(u.Elem(), m["elem"])
			if err != nil {
				return nil, err
			}
			cv.Ptr = p
		}
		return cv, nil
	case *types.Struct:
		m, _ := d.(map[string]interface{})
		fs, _ := m["fields"].([]interface{})
		cv := &CV{Kind: "struct", T: t}
		if len(fs) != u.NumFields() {
			return nil, fmt.Errorf("struct dump has %d fields, want %d", len(fs), u.NumFields())
		}
		for i := 0; i < u.NumFields(); i++ {
			f, err := P.cvFromDump(u.Field(i).Type(), fs[i])
			if err != nil {
				return nil, err
			}
			cv.Fields = append(cv.Fields, f)
		}
		return cv, nil
	case *types.Interface:
		m, _ := d.(map[string]interface{})
		cv := &CV{Kind: "iface", T: t}
		if m == nil {
			return nil, fmt.Errorf("bad interface dump")
		}
		cv.Nil, _ = m["nil"].(bool)
		if cv.Nil {
			return cv, nil
		}
		tn, _ := m["type"].(string)
		dt := P.typeByReflectName(tn)
		if dt == nil {
			// unknown dynamic type (typically an error value): keep the type identity only
			cv.Dyn = types.NewNamed(types.NewTypeName(0, nil, "dyn:"+tn, nil), types.NewStruct(nil, nil), nil)
			cv.Box = &CV{Kind: "struct", T: cv.Dyn}
			return cv, nil
		}
		cv.Dyn = dt
		inner := m["value"]
		bx, err := P.cvFromDump(dt, inner)
		if err != nil {
			cv.Box = &CV{Kind: "struct", T: types.NewStruct(nil, nil)}
			cv.Dyn = types.NewNamed(types.NewTypeName(0, nil, "dyn:"+tn, nil), types.NewStruct(nil, nil), nil)
			return cv, nil
		}
		cv.Box = bx
		return cv, nil
	}
	return nil, fmt.Errorf("unsupported type %s in outputs", t)
}

// typeByReflectName maps reflect's "tensor.noopError" / "*tensor.sli" to a go/types type.
func (P *Prog) typeByReflectName(n string) types.Type {
	ptr := strings.HasPrefix(n, "*")
	n = strings.TrimPrefix(n, "*")
	i := strings.LastIndex(n, ".")
	if i < 0 {
		if bt, ok := basicByName[n]; ok {
			return bt
		}
		return nil
	}
	pkgName, tn := n[:i], n[i+1:]
	for _, pp := range P.prog.AllPackages() {
		if pp.Pkg.Name() != pkgName {
			continue
		}
		if obj := pp.Pkg.Scope().Lookup(tn); obj != nil {
			if _, ok := obj.(*types.TypeName); ok {
				if ptr {
					return types.NewPointer(obj.Type())
				}
				return obj.Type()
			}
		}
	}
	return nil
}

func (P *Prog) evalConcrete(x0 *Exec, inputs []*CV, outs map[string]interface{}) (violated []string, why string) {
	defer func() {
		if r := recover(); r != nil {
			why = fmt.Sprintf("cannot evaluate the contract on the concrete run: %v", r)
		}
	}()
	fn := x0.fn
	if pmsg, ok := outs["panic"]; ok {
		return []string{fmt.Sprintf("safe:no-panic (real code panicked: %v)", pmsg)}, ""
	}
	x := P.newExec(fn, x0.key, x0.c, x0.rank)
	x.solv = x0.solvRef
	x.assignAll = true
	pre := &State{cells: map[*Cell]Value{}, heap: map[string]Term{}, loopHd: map[*Loop]*State{}, loopIt: map[*Loop]int{}}
	pre.alloc = IntLit(1000)
	pre.frames = []*Frame{{fn: fn, names: map[string]Value{}}}
	b := &concBuilder{x: x}
	names := map[string]Value{}
	var pvals []Value
	for i, p := range fn.Params {
		v := b.build(pre, inputs[i])
		names[p.Name()] = v
		pvals = append(pvals, v)
	}
	x.entry = pre
	post := pre.clone()
	post.alloc = IntLit(1000000)
	// post-state of the parameters: overwrite reachable memory with the dumped values
	pd, _ := outs["params"].([]interface{})
	for i, p := range fn.Params {
		if i >= len(pd) {
			break
		}
		cv, err := P.cvFromDump(p.Type(), pd[i])
		if err != nil {
			return nil, "cannot read back parameter " + p.Name() + ": " + err.Error()
		}
		overwrite(x, post, pvals[i], cv)
	}
	b.next = 2000
	rd, _ := outs["results"].([]interface{})
	sig := fn.Signature
	rnames := map[string]Value{}
	for i := 0; i < sig.Results().Len() && i < len(rd); i++ {
		cv, err := P.cvFromDump(sig.Results().At(i).Type(), rd[i])
		if err != nil {
			return nil, "cannot read back result: " + err.Error()
		}
		v := b.build(post, cv)
		nm := sig.Results().At(i).Name()
		if nm == "" || nm == "_" {
			nm = fmt.Sprintf("result%d", i)
		}
		rnames[nm] = v
		if sig.Results().Len() == 1 {
			rnames["result"] = v
		}
		if len(x.c.Results) == sig.Results().Len() {
			rnames[x.c.Results[i]] = v
		}
	}
	all := map[string]Value{}
	for k, v := range names {
		all[k] = v
	}
	for k, v := range rnames {
		all[k] = v
	}
	for _, l := range x.c.Lets {
		v := (&Env{x: x, st: pre, names: names}).eval(l.E)
		names[l.Name] = v
		all[l.Name] = v
	}
	env := &Env{x: x, st: post, old: pre, names: all}
	// preconditions must hold on the input, otherwise the model is outside the contract
	for _, cl := range x.c.Clauses {
		if cl.Kind == "requires" {
			t := (&Env{x: x, st: pre, names: names}).evalBool(cl.E)
			if x.groundRefuted(pre, t) {
				return nil, "the model's input does not satisfy requires [" + cl.Label + "] when evaluated concretely"
			}
		}
	}
	for _, cl := range x.c.Clauses {
		if cl.Kind != "ensures" {
			continue
		}
		t := env.evalBool(cl.E)
		if !x.groundHolds(post, t) {
			violated = append(violated, "ensures:"+cl.Label+" :: "+cl.Src)
		}
	}
	return violated, ""
}

// overwrite stores the dumped post-value over the memory reachable from the parameter value.
func overwrite(x *Exec, st *State, v Value, cv *CV) {
	switch u := v.(type) {
	case SliceV:
		if cv.Kind != "slice" {
			return
		}
		for i, e := range cv.Elems {
			if int64(i) >= cv.Len {
				break
			}
			p := PtrV{Kind: PElem, Arr: u.Arr, Idx: Add(u.Off, IntLit(int64(i))), Root: u.Elem}
			cur := x.loadPtr(st, p)
			if _, isScalar := cur.(Scalar); isScalar {
				b := &concBuilder{x: x}
				x.storePtrNoCheck(st, p, b.build(st, e))
			} else {
				overwrite(x, st, cur, e)
			}
		}
	case PtrV:
		if cv.Kind != "ptr" || cv.Nil || u.Kind != PHeap {
			return
		}
		cur := x.loadPtr(st, u)
		nv := overwriteValue(x, st, cur, cv.Ptr)
		x.storePtrNoCheck(st, u, nv)
	}
}

// overwriteValue returns cur with scalar leaves replaced by the dumped ones; slices keep their
// identity (arr) when the dump has the same length, their elements are overwritten in st.
func overwriteValue(x *Exec, st *State, cur Value, cv *CV) Value {
	switch u := cur.(type) {
	case Scalar:
		b := &concBuilder{x: x}
		return b.build(st, cv)
	case StructV:
		out := StructV{T: u.T}
		for i, f := range u.Fields {
			out.Fields = append(out.Fields, overwriteValue(x, st, f, cv.Fields[i]))
		}
		return out
	case SliceV:
		if cv.Kind == "slice" {
			if l, ok := u.Len.IsLit(); ok && l == cv.Len && !cv.Nil {
				overwrite(x, st, u, cv)
				return u
			}
			b := &concBuilder{x: x, next: 5000 + int64(len(st.pc))}
			return b.build(st, cv)
		}
	case IfaceV, PtrV:
		return cur
	}
	return cur
}

// groundHolds decides a closed formula over concrete states.
func (x *Exec) groundHolds(st *State, t Term) bool {
	if t.IsTrue() {
		return true
	}
	if t.IsFalse() {
		return false
	}
	o := &Obligation{Hyps: st.pc, Goal: t, decls: x.decls, prog: x}
	r := x.solv.Solve(o.BuildQuery(), false)
	return r.Result == "unsat"
}

func (m *modelReader) witnessFor(x *Exec, t types.Type) *Witness {
	n, ok := t.(*types.Named)
	if !ok || n.Obj().Pkg() == nil {
		return nil
	}
	return x.P.db.Witnesses[n.Obj().Pkg().Path()+"."+n.Obj().Name()]
}

// groundRefuted: the formula is definitely false on the concrete state (formulas that mention
// state the replay does not reconstruct, e.g. package-level variables, are not refuted).
func (x *Exec) groundRefuted(st *State, t Term) bool {
	if t.IsFalse() {
		return true
	}
	if t.IsTrue() {
		return false
	}
	o := &Obligation{Hyps: st.pc, Goal: Not(t), decls: x.decls, prog: x}
	r := x.solv.Solve(o.BuildQuery(), false)
	return r.Result == "unsat"
}
