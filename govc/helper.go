package main

import (
	"bufio"
	"context"
	"encoding/json"
	"os"
	"os/exec"
	"sync"
	"time"
)

// The solver helper is a small child process started before the (memory-hungry) program
// loader runs; it spawns the SMT solvers on request. Spawning from the main process costs
// 100-200 ms per exec once a gigabyte of SSA is resident.

type helperReq struct {
	ID      int      `json:"id"`
	Args    []string `json:"args"`
	Timeout float64  `json:"timeout"`
}

type helperResp struct {
	ID     int     `json:"id"`
	Output string  `json:"output"`
	Secs   float64 `json:"secs"`
}

func helperMain() {
	in := bufio.NewReaderSize(os.Stdin, 1<<20)
	var mu sync.Mutex
	enc := json.NewEncoder(os.Stdout)
	dec := json.NewDecoder(in)
	var wg sync.WaitGroup
	for {
		var req helperReq
		if err := dec.Decode(&req); err != nil {
			break
		}
		wg.Add(1)
		go func(req helperReq) {
			defer wg.Done()
			ctx, cancel := context.WithTimeout(context.Background(), time.Duration(req.Timeout*float64(time.Second)))
			defer cancel()
			t0 := time.Now()
			out, _ := exec.CommandContext(ctx, req.Args[0], req.Args[1:]...).CombinedOutput()
			mu.Lock()
			enc.Encode(helperResp{ID: req.ID, Output: string(out), Secs: time.Since(t0).Seconds()})
			mu.Unlock()
		}(req)
	}
	wg.Wait()
}

type helperClient struct {
	cmd  *exec.Cmd
	enc  *json.Encoder
	mu   sync.Mutex
	next int
	wait map[int]chan helperResp
}

var theHelper *helperClient

func startHelper() {
	exe, err := os.Executable()
	if err != nil {
		return
	}
	cmd := exec.Command(exe, "solver-helper")
	stdin, err := cmd.StdinPipe()
	if err != nil {
		return
	}
	stdout, err := cmd.StdoutPipe()
	if err != nil {
		return
	}
	cmd.Stderr = os.Stderr
	if err := cmd.Start(); err != nil {
		return
	}
	h := &helperClient{cmd: cmd, enc: json.NewEncoder(stdin), wait: map[int]chan helperResp{}}
	go func() {
		dec := json.NewDecoder(bufio.NewReaderSize(stdout, 1<<20))
		for {
			var r helperResp
			if err := dec.Decode(&r); err != nil {
				return
			}
			h.mu.Lock()
			ch := h.wait[r.ID]
			delete(h.wait, r.ID)
			h.mu.Unlock()
			if ch != nil {
				ch <- r
			}
		}
	}()
	theHelper = h
}

func (h *helperClient) run(args []string, timeout time.Duration) (string, float64) {
	ch := make(chan helperResp, 1)
	h.mu.Lock()
	h.next++
	id := h.next
	h.wait[id] = ch
	h.enc.Encode(helperReq{ID: id, Args: args, Timeout: timeout.Seconds()})
	h.mu.Unlock()
	r := <-ch
	return r.Output, r.Secs
}
