package main

import (
	"go/types"

	"golang.org/x/tools/go/ssa"
)

// sigVars derives schema variables from a function signature:
// T  = Go name of the element type of the first slice parameter (or of the first scalar parameter),
// Tn = the same for the n-th parameter.
func sigVars(fn *ssa.Function) map[string]string {
	out := map[string]string{}
	for i, p := range fn.Params {
		var t types.Type
		switch u := p.Type().Underlying().(type) {
		case *types.Slice:
			t = u.Elem()
		case *types.Basic:
			t = p.Type()
		default:
			continue
		}
		name := types.TypeString(t, func(*types.Package) string { return "" })
		if _, ok := out["T"]; !ok {
			if _, isSlice := p.Type().Underlying().(*types.Slice); isSlice {
				out["T"] = name
			}
		}
		out["T"+string(rune('0'+i))] = name
	}
	return out
}
