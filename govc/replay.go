package main

import (
	"encoding/json"
	"os"
)

// writeReplay records a violation. When the failing query has a model, the function's entry
// inputs are extracted and run against the real code (see replay_run.go); the result tells
// whether the real code violates one of the function's ensures clauses on that input.
func (P *Prog) writeReplay(file, prop string, a *AggObl, reason string, solv *Solvers) bool {
	rec := map[string]interface{}{
		"property":   prop,
		"obligation": a.Name,
		"status":     a.Status,
		"reason":     reason,
		"detail":     a.Detail,
	}
	replayed := false
	if o := a.Failing; o != nil {
		rec["rank"] = o.Rank
		rec["path"] = o.Path
		rec["position"] = o.Pos
		rec["solver"] = o.Solver
		rec["solver_output"] = o.Model
		rec["smtlib"] = o.Query + "(check-sat)\n(get-model)\n"
		if o.Result == "sat" {
			rr := P.replayOnRealCode(o, file)
			rec["replay"] = rr
			if rr != nil && rr.Replayed {
				replayed = true
			}
		}
	}
	data, _ := json.MarshalIndent(rec, "", " ")
	os.WriteFile(file, append(data, '\n'), 0o644)
	return replayed
}

type ReplayResult struct {
	Replayed bool                   `json:"replayed"`
	Why      string                 `json:"why"`
	Inputs   map[string]interface{} `json:"inputs,omitempty"`
	Outputs  map[string]interface{} `json:"outputs,omitempty"`
	Violated []string               `json:"violated_clauses,omitempty"`
	TestSrc  string                 `json:"go_test,omitempty"`
	Log      string                 `json:"log,omitempty"`
}
