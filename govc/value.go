package main

import (
	"fmt"
	"go/types"
	"os"
	"runtime/debug"
	"strings"

	"golang.org/x/tools/go/ssa"
)

// Value is a symbolic Go value: a tree whose leaves are SMT terms.
type Value interface{}

type Scalar struct{ T Term }

type SliceV struct {
	Arr, Off, Len, Cap Term
	Elem               types.Type
}

type IfaceV struct{ Tag, Val Term }

type StructV struct {
	Fields []Value
	T      *types.Struct
}

type TupleV struct{ Elems []Value }

// PtrV is a structured pointer: a root location plus a field path.
type PtrV struct {
	Cell *Cell      // root: local cell (non-escaping alloc)
	Ref  Term       // root: heap object reference (Int), valid when Cell==nil && !IsElem
	Arr  Term       // root: slice element: array ref
	Idx  Term       //        and absolute index
	Kind int        // 0 cell, 1 heap object, 2 slice element, 3 nil/unknown int
	Root types.Type // type of the root location's content
	Path []int      // struct field indices from root

	global *ssa.Global // set for pointers to package-level variables
	lval   bool        // specification evaluator: the selection of a struct-typed field (denotes the struct value in comparisons)

	// castElem != nil: the pointer was obtained by reinterpreting a *[]U as *[]castElem through
	// unsafe.Pointer (storage.Header typed views). Loads rescale off/len/cap by the size ratio;
	// that the typed view aliases the byte store element-wise is a trusted assumption.
	castElem types.Type
}

const (
	PCell = iota
	PHeap
	PElem
)

type Cell struct {
	id   int
	name string
	typ  types.Type
}

// FuncV is a function value: either a statically known function/closure or a symbolic one.
type FuncV struct {
	T    Term   // symbolic identity (Int)
	Name string // non-empty if statically known
	Sig  *types.Signature
	Fn   interface{} // *ssa.Function if known
	Bind []Value
}

// MapV is a Go map modelled as two arrays (present, value) held in heap by ref.
type MapV struct {
	Ref Term
	T   *types.Map
}

var bvTypes = map[string]int{
	"gorgonia.org/tensor.DataOrder":  8,
	"gorgonia.org/tensor.Triangle":   8,
	"gorgonia.org/tensor.MemoryFlag": 8,
}

func sanitize(s string) string {
	var sb strings.Builder
	for _, r := range s {
		switch {
		case r >= 'a' && r <= 'z', r >= 'A' && r <= 'Z', r >= '0' && r <= '9', r == '_', r == '.':
			sb.WriteRune(r)
		case r == '-':
			sb.WriteString("m")
		case r == '+':
			sb.WriteString("p")
		default:
			sb.WriteString("_")
		}
	}
	return sb.String()
}

// sortOf gives the SMT sort of a scalar Go type.
func sortOf(t types.Type) string {
	if n, ok := t.(*types.Named); ok {
		if n.Obj().Pkg() != nil {
			if w, ok := bvTypes[n.Obj().Pkg().Path()+"."+n.Obj().Name()]; ok {
				return fmt.Sprintf("(_ BitVec %d)", w)
			}
		}
	}
	switch u := t.Underlying().(type) {
	case *types.Basic:
		switch {
		case u.Kind() == types.Int || u.Kind() == types.UntypedInt:
			return SInt
		case u.Info()&types.IsBoolean != 0:
			return SBool
		case u.Info()&types.IsString != 0:
			return "Str"
		case u.Kind() == types.UnsafePointer:
			return SInt
		case u.Kind() == types.UntypedNil:
			return SInt
		case u.Kind() == types.UntypedFloat:
			return "E_float64"
		case u.Kind() == types.UntypedRune:
			return "E_int32"
		default:
			return "E_" + types.Typ[u.Kind()].Name()
		}
	case *types.Pointer, *types.Signature, *types.Chan, *types.Map:
		return SInt
	}
	panic("sortOf: not scalar: " + t.String())
}

func isScalarType(t types.Type) bool {
	switch t.Underlying().(type) {
	case *types.Basic, *types.Pointer, *types.Signature, *types.Chan, *types.Map:
		return true
	}
	return false
}

type leaf struct {
	name string
	sort string
}

// leavesOf flattens a type into named scalar leaves.
func leavesOf(t types.Type) []leaf {
	switch u := t.Underlying().(type) {
	case *types.Slice:
		return []leaf{{"arr", SInt}, {"off", SInt}, {"len", SInt}, {"cap", SInt}}
	case *types.Interface:
		return []leaf{{"tag", SInt}, {"val", SInt}}
	case *types.Struct:
		var out []leaf
		for i := 0; i < u.NumFields(); i++ {
			f := u.Field(i)
			for _, l := range leavesOf(f.Type()) {
				n := f.Name()
				if l.name != "" {
					n += "." + l.name
				}
				out = append(out, leaf{n, l.sort})
			}
		}
		return out
	case *types.Tuple:
		var out []leaf
		for i := 0; i < u.Len(); i++ {
			for _, l := range leavesOf(u.At(i).Type()) {
				out = append(out, leaf{fmt.Sprintf("%d.%s", i, l.name), l.sort})
			}
		}
		return out
	case *types.Array:
		panic(unsupported("array-valued type " + t.String()))
	}
	return []leaf{{"", sortOf(t)}}
}

func flatten(v Value) []Term {
	switch x := v.(type) {
	case Scalar:
		return []Term{x.T}
	case SliceV:
		return []Term{x.Arr, x.Off, x.Len, x.Cap}
	case IfaceV:
		return []Term{x.Tag, x.Val}
	case StructV:
		var out []Term
		for _, f := range x.Fields {
			out = append(out, flatten(f)...)
		}
		return out
	case TupleV:
		var out []Term
		for _, f := range x.Elems {
			out = append(out, flatten(f)...)
		}
		return out
	case PtrV:
		if x.Kind == PHeap && len(x.Path) == 0 {
			return []Term{x.Ref}
		}
		panic(unsupported("storing/flattening an interior or local pointer"))
	case FuncV:
		return []Term{x.T}
	case MapV:
		return []Term{x.Ref}
	}
	panic(fmt.Sprintf("flatten: %T", v))
}

func unflatten(t types.Type, ls []Term) (Value, []Term) {
	switch u := t.Underlying().(type) {
	case *types.Slice:
		return SliceV{ls[0], ls[1], ls[2], ls[3], u.Elem()}, ls[4:]
	case *types.Interface:
		return IfaceV{ls[0], ls[1]}, ls[2:]
	case *types.Struct:
		sv := StructV{T: u}
		for i := 0; i < u.NumFields(); i++ {
			var f Value
			f, ls = unflatten(u.Field(i).Type(), ls)
			sv.Fields = append(sv.Fields, f)
		}
		return sv, ls
	case *types.Tuple:
		tv := TupleV{}
		for i := 0; i < u.Len(); i++ {
			var f Value
			f, ls = unflatten(u.At(i).Type(), ls)
			tv.Elems = append(tv.Elems, f)
		}
		return tv, ls
	case *types.Pointer:
		return PtrV{Kind: PHeap, Ref: ls[0], Root: u.Elem()}, ls[1:]
	case *types.Signature:
		return FuncV{T: ls[0], Sig: u}, ls[1:]
	case *types.Map:
		return MapV{Ref: ls[0], T: u}, ls[1:]
	}
	return Scalar{ls[0]}, ls[1:]
}

func zeroTerm(sort string) Term {
	switch {
	case sort == SInt:
		return IntLit(0)
	case sort == SBool:
		return TFalse
	case sort == "Str":
		return Term{"str_empty", "Str"}
	case strings.HasPrefix(sort, "(_ BitVec "):
		var w int
		fmt.Sscanf(sort, "(_ BitVec %d)", &w)
		return Term{fmt.Sprintf("(_ bv0 %d)", w), sort}
	case strings.HasPrefix(sort, "E_"):
		return Term{"lit_" + sort + "_0", sort}
	}
	panic("zeroTerm: " + sort)
}

func zeroValue(t types.Type) Value {
	ls := leavesOf(t)
	ts := make([]Term, len(ls))
	for i, l := range ls {
		ts[i] = zeroTerm(l.sort)
	}
	v, _ := unflatten(t, ts)
	return v
}

type unsupportedErr struct{ msg string }

func (u unsupportedErr) Error() string { return "unsupported: " + u.msg }
func unsupported(msg string) error {
	if os.Getenv("GOVC_DEBUG") == "2" {
		debug.PrintStack()
	}
	return unsupportedErr{msg}
}

func typeKey(t types.Type) string {
	if b, ok := t.(*types.Basic); ok && b.Kind() != types.UnsafePointer && b.Kind() < types.UntypedBool {
		return types.Typ[b.Kind()].Name() // byte -> uint8, rune -> int32
	}
	return sanitize(types.TypeString(t, func(p *types.Package) string { return p.Name() }))
}
