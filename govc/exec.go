package main

import (
	"fmt"
	"go/constant"
	"go/token"
	"go/types"
	"os"
	"strings"

	"golang.org/x/tools/go/ssa"
)

type Obligation struct {
	Name   string `json:"name"`
	Func   string `json:"func"`
	Kind   string `json:"kind"`
	Label  string `json:"label"`
	Rank   int    `json:"rank"`
	Pos    string `json:"pos,omitempty"`
	Detail string `json:"detail,omitempty"`
	Hyps   []Term `json:"-"`
	Goal   Term   `json:"-"`
	decls  *Decls
	prog   *Exec
	Query  string  `json:"-"`
	Result string  `json:"result"` // unsat (discharged) / sat (failed) / unknown
	Solver string  `json:"solver,omitempty"`
	Time   float64 `json:"time_s"`
	Model  string  `json:"model,omitempty"`
	Canary bool    `json:"canary,omitempty"` // vacuity probe: expected to be sat
	Late   bool    `json:"-"`                // reserve vacuity probe: only tried when the sampled probes were all unsat
	Path   string  `json:"path,omitempty"`
	inputs []inputLeaf
}

type inputLeaf struct {
	Name string // e.g. "coords.len" or "coords[0]"
	Term Term
}

type Exec struct {
	P         *Prog
	fn        *ssa.Function
	key       string
	c         *Contract
	decls     *Decls
	obls      []*Obligation
	entry     *State
	mapSorts  map[string]string
	rank      int // -1 when unbounded
	paths     int
	retPaths  int
	unsup     []string
	ncell     int
	loopOf    map[*ssa.BasicBlock]*Loop
	events    int
	maxPaths  int
	maxSteps  int
	results   []Value // last return (for evaluator)
	inputs    []inputLeaf
	axioms    []Term
	rtypeAx   map[int]bool
	implAx    map[string]bool
	specDefs  map[string]*specDef
	entryLets map[string]Value
	evalDepth int

	pruneWithSolver bool
	implIfaces      map[string]*types.Interface
	rtypeUsed       map[int]types.Type
	inlined         map[string]int
	usedContracts   map[string]bool
	metaClauses     map[string]bool
	probeCount      map[string]int
	probeCands      map[string][]*Obligation
	probePrio       map[string]int
	assignAll       bool
	qcount          int
	unsupPaths      []string
	solv            *Solvers
	solvRef         *Solvers
	evalState       *State
}

type pathEnd struct{}

var traceForks = os.Getenv("GOVC_TRACE") != ""

func (x *Exec) unsupportedf(format string, args ...interface{}) {
	panic(unsupportedErr{fmt.Sprintf(format, args...)})
}

func (x *Exec) posOf(ins ssa.Instruction) string {
	if ins == nil {
		return ""
	}
	p := ins.Pos()
	if !p.IsValid() {
		return ""
	}
	pp := x.P.fset.Position(p)
	return fmt.Sprintf("%s:%d", shortFile(pp.Filename), pp.Line)
}

func shortFile(f string) string {
	if i := strings.Index(f, "/repo/"); i >= 0 {
		return f[i+6:]
	}
	if i := strings.LastIndex(f, "/"); i >= 0 {
		return f[i+1:]
	}
	return f
}

func (x *Exec) addObl(st *State, kind, label string, goal Term, pos, detail string) {
	if kind == "safe" && (label == "slice" || label == "index") && x.c.Config["bounds"] == "unchecked" {
		// config bounds unchecked: index and slice bounds of this function are not obligations (the contract then
		// speaks about executions that do not panic; stated in the contract's comment and in the evidence)
		return
	}
	if !goal.IsTrue() && strings.HasPrefix(goal.S, "(=> ") && refutedAntecedent(st, goal.S) {
		// the antecedent contradicts a literal equality on the path (e.g. another arm of a type
		// switch): discharged syntactically
		goal = TTrue
	}
	// hypotheses that are implications with an antecedent refuted on this path say nothing here
	hyps := make([]Term, 0, len(st.pc))
	for _, h := range st.pc {
		if strings.HasPrefix(h.S, "(=> ") && refutedAntecedent(st, h.S) {
			continue
		}
		hyps = append(hyps, h)
	}
	o := &Obligation{
		Name: shortKey(x.key) + "#" + kind + ":" + label, Func: x.key, Kind: kind, Label: label, Rank: x.rank,
		Pos: pos, Detail: detail, Hyps: hyps, Goal: goal, decls: x.decls, prog: x,
		Path: strings.Join(st.path, ">"), inputs: x.inputs,
	}
	x.obls = append(x.obls, o)
}

// ---------- function entry ----------

func (x *Exec) freshOfType(st *State, t types.Type, name string) Value {
	ls := leavesOf(t)
	ts := make([]Term, len(ls))
	for i, l := range ls {
		n := name
		if l.name != "" {
			n += "." + l.name
		}
		ts[i] = x.decls.Fresh(n, l.sort)
	}
	v, _ := unflatten(t, ts)
	x.loadedFacts(st, t, v)
	if iv, ok := v.(IfaceV); ok {
		st.assume(And(Le(IntLit(0), iv.Tag), Le(IntLit(0), iv.Val), Lt(iv.Val, st.alloc)))
		st.assume(Implies(Eq(iv.Tag, IntLit(0)), Eq(iv.Val, IntLit(0))))
	}
	if sv, ok := v.(SliceV); ok {
		st.assume(Implies(Eq(sv.Arr, IntLit(0)), And(Eq(sv.Len, IntLit(0)), Eq(sv.Cap, IntLit(0)))))
	}
	if pv, ok := v.(PtrV); ok && pv.Kind == PHeap {
		st.assume(Le(IntLit(0), pv.Ref))
	}
	return v
}

func (x *Exec) paramValue(st *State, t types.Type, name string) Value {
	ls := leavesOf(t)
	ts := make([]Term, len(ls))
	for i, l := range ls {
		n := "in_" + name
		if l.name != "" {
			n += "." + l.name
		}
		ts[i] = x.decls.Const(smtName(n), l.sort)
		x.inputs = append(x.inputs, inputLeaf{name + "." + l.name, ts[i]})
	}
	v, _ := unflatten(t, ts)
	x.loadedFacts(st, t, v)
	switch u := v.(type) {
	case IfaceV:
		st.assume(And(Le(IntLit(0), u.Tag), Le(IntLit(0), u.Val), Lt(u.Val, st.alloc)))
		st.assume(Implies(Eq(u.Tag, IntLit(0)), Eq(u.Val, IntLit(0))))
	case SliceV:
		st.assume(Implies(Eq(u.Arr, IntLit(0)), And(Eq(u.Len, IntLit(0)), Eq(u.Cap, IntLit(0)))))
	case PtrV:
		if u.Kind == PHeap {
			st.assume(Lt(IntLit(0), u.Ref)) // receivers / pointer params are assumed non-nil
		}
	}
	return v
}

func (x *Exec) newCell(name string, t types.Type) *Cell {
	x.ncell++
	return &Cell{id: x.ncell, name: name, typ: t}
}

// ---------- block execution ----------

func (x *Exec) execBlock(st *State, from, b *ssa.BasicBlock) {
	if st.dead {
		return
	}
	fr := st.top()
	if fr.depth == 0 {
		if l := x.loopOf[b]; l != nil && x.loopIsCut(l) {
			if from != nil && l.Blocks[from] {
				x.loopBackEdge(st, l)
				return
			}
			x.loopEntry(st, l)
			if splits := x.loopSplits(st, l); len(splits) != 1 || splits[0] != st {
				for _, s2 := range splits {
					x.paths++
					s2.path = append(s2.path, fmt.Sprintf("%d", b.Index))
					x.execFrom(s2, b, 0)
				}
				return
			}
		} else if l != nil {
			st.loopIt[l]++
			limit := 4*(x.rank+2) + 8
			if x.c != nil && x.c.Fuel > 0 {
				limit = x.c.Fuel
			}
			if st.loopIt[l] > limit {
				// fuel exhausted: the path must be infeasible
				x.addObl(st, "fuel", fmt.Sprintf("loop%d", l.Ordinal), TFalse, "", "loop unrolling fuel exhausted; path must be infeasible")
				return
			}
		}
	}
	st.path = append(st.path, fmt.Sprintf("%d", b.Index))
	// phis first
	if from != nil {
		idx := -1
		for i, p := range b.Preds {
			if p == from {
				idx = i
			}
		}
		vals := map[*ssa.Phi]Value{}
		for _, ins := range b.Instrs {
			phi, ok := ins.(*ssa.Phi)
			if !ok {
				break
			}
			vals[phi] = x.val(st, phi.Edges[idx])
		}
		for phi, v := range vals {
			fr.regs[phi] = v
		}
	}
	x.execFrom(st, b, 0)
}

func (x *Exec) execFrom(st *State, b *ssa.BasicBlock, idx int) {
	for i := idx; i < len(b.Instrs); i++ {
		if st.dead {
			return
		}
		st.steps++
		if st.steps > x.maxSteps {
			x.unsupportedf("step budget exceeded in %s", x.key)
		}
		ins := b.Instrs[i]
		switch v := ins.(type) {
		case *ssa.Phi, *ssa.DebugRef:
			continue
		case *ssa.If:
			c := x.val(st, v.Cond).(Scalar).T
			if c.IsTrue() {
				x.execBlock(st, b, b.Succs[0])
				return
			}
			if c.IsFalse() {
				x.execBlock(st, b, b.Succs[1])
				return
			}
			// a condition already decided on this path (same term assumed or refuted) does not fork
			if st.pcSet != nil {
				if st.pcSet[c.S] {
					x.execBlock(st, b, b.Succs[0])
					return
				}
				if st.pcSet[Not(c).S] {
					x.execBlock(st, b, b.Succs[1])
					return
				}
			}
			x.paths++
			if traceForks {
				cs := c.S
				if len(cs) > 300 {
					cs = cs[:300] + "..."
				}
				fmt.Fprintf(os.Stderr, "fork at block %d (%s): %s\n", b.Index, x.posOf(v), cs)
			}
			if x.paths > x.maxPaths {
				x.unsupportedf("path budget exceeded in %s (at %s)", x.key, strings.Join(st.path, ">"))
			}
			st2 := st.clone()
			st.assume(c)
			st.path = append(st.path, "T")
			st2.assume(Not(c))
			st2.path = append(st2.path, "F")
			if x.feasible(st) {
				x.execBlock(st, b, b.Succs[0])
			}
			if x.feasible(st2) {
				x.execBlock(st2, b, b.Succs[1])
			}
			return
		case *ssa.Jump:
			x.execBlock(st, b, b.Succs[0])
			return
		case *ssa.Return:
			var res []Value
			for _, r := range v.Results {
				res = append(res, x.val(st, r))
			}
			fr := st.top()
			fr.ret(st, res)
			return
		case *ssa.Panic:
			if x.c.Config["panics"] != "allowed" {
				// (config panics allowed: an explicit panic is a loud refusal and simply ends the path)
				x.addObl(st, "safe", "panic", TFalse, x.posOf(v), "explicit panic must be unreachable")
			}
			return
		case *ssa.RunDefers:
			if len(st.top().defers) > 0 {
				blk, next := b, i+1
				x.runDefers(st, func(st2 *State) { x.execFrom(st2, blk, next) })
				return
			}
			continue
		case *ssa.Call:
			blk, next := b, i+1
			x.guarded(st, v, func() {
				x.doCall(st, v, func(st2 *State, res Value) {
					if res != nil {
						st2.top().regs[v] = res
					}
					x.execFrom(st2, blk, next)
				})
			})
			return
		case *ssa.Defer:
			// arguments (and the closure with its bindings) are evaluated now, the call runs at RunDefers
			fr := st.top()
			var args []Value
			if v.Call.IsInvoke() {
				x.unsupportedf("deferred interface call at %s", x.posOf(v))
			}
			for _, a := range v.Call.Args {
				args = append(args, x.val(st, a))
			}
			var fv Value
			if _, isB := v.Call.Value.(*ssa.Builtin); !isB {
				fv = x.val(st, v.Call.Value)
			}
			fr.defers = append(fr.defers, v)
			fr.deferA = append(fr.deferA, append([]Value{fv}, args...))
			continue
		case *ssa.Go:
			x.unsupportedf("go statement at %s", x.posOf(v))
		default:
			if !x.guarded(st, ins, func() { x.step(st, ins) }) {
				return
			}
		}
	}
}

// guarded runs f; an "unsupported" construct met on a path does not abort the whole function:
// the path is closed with the obligation that it is unreachable under the contract's
// preconditions (e.g. the reflect-based default arm of a kind switch).
func (x *Exec) guarded(st *State, ins ssa.Instruction, f func()) (ok bool) {
	defer func() {
		if r := recover(); r != nil {
			if u, isU := r.(unsupportedErr); isU && !strings.Contains(u.msg, "budget") {
				x.addObl(st, "reach", "unsupported", TFalse, x.posOf(ins), "path reaches a construct outside the verified subset ("+u.msg+"); it must be unreachable")
				x.unsupPaths = append(x.unsupPaths, u.msg)
				ok = false
				return
			}
			panic(r)
		}
	}()
	f()
	return true
}

// feasible is a cheap syntactic check (the solver-based pruning is in prune.go).
func (x *Exec) feasible(st *State) bool {
	if st.dead {
		return false
	}
	if x.pruneWithSolver {
		return x.solverFeasible(st)
	}
	return true
}

func (x *Exec) val(st *State, v ssa.Value) Value {
	fr := st.top()
	if r, ok := fr.regs[v]; ok {
		return r
	}
	switch c := v.(type) {
	case *ssa.Const:
		return x.constVal(st, c)
	case *ssa.Global:
		return x.globalPtr(c)
	case *ssa.Function:
		return x.funcValue(c)
	case *ssa.Builtin:
		return FuncV{Name: "builtin:" + c.Name()}
	case *ssa.Parameter, *ssa.FreeVar:
		panic(fmt.Sprintf("unbound %s %s in %s", v.Name(), v.Type(), fr.fn.Name()))
	}
	panic(fmt.Sprintf("val: no value for %s (%T) in %s", v.Name(), v, fr.fn.Name()))
}

func (x *Exec) funcValue(c *ssa.Function) Value {
	x.P.mu.Lock()
	id, ok := x.P.funcIDs[c]
	if !ok {
		id = len(x.P.funcIDs) + 1
		x.P.funcIDs[c] = id
	}
	x.P.mu.Unlock()
	return FuncV{T: IntLit(int64(100000 + id)), Name: funcKey(c), Sig: c.Signature, Fn: c}
}

func (x *Exec) globalPtr(g *ssa.Global) Value {
	id, ok := x.P.globalIDs[g]
	if !ok {
		id = len(x.P.globalIDs) + 1
		x.P.globalIDs[g] = id
	}
	return PtrV{Kind: PHeap, Ref: IntLit(int64(-id)), Root: g.Type().(*types.Pointer).Elem(), global: g}
}

func (x *Exec) constVal(st *State, c *ssa.Const) Value {
	t := c.Type()
	if c.Value == nil {
		// zero value / nil
		if _, ok := t.Underlying().(*types.Basic); ok && t.Underlying().(*types.Basic).Kind() == types.UntypedNil {
			return Scalar{IntLit(0)}
		}
		return zeroValue(t)
	}
	b, ok := t.Underlying().(*types.Basic)
	if !ok {
		x.unsupportedf("constant of type %s", t)
	}
	sort := sortOf(t)
	switch {
	case sort == SInt:
		if i, ok := constant.Int64Val(constant.ToInt(c.Value)); ok {
			return Scalar{IntLit(i)}
		}
		x.unsupportedf("big int constant")
	case sort == SBool:
		return Scalar{BoolLit(constant.BoolVal(c.Value))}
	case sort == "Str":
		s := constant.StringVal(c.Value)
		if s == "" {
			return Scalar{x.decls.Const("str_empty", "Str")}
		}
		return Scalar{x.strConst(s)}
	case strings.HasPrefix(sort, "(_ BitVec "):
		var w int
		fmt.Sscanf(sort, "(_ BitVec %d)", &w)
		i, _ := constant.Uint64Val(constant.ToInt(c.Value))
		return Scalar{Term{fmt.Sprintf("(_ bv%d %d)", i, w), sort}}
	default:
		_ = b
		val := c.Value
		if val.Kind() == constant.Complex && constant.Sign(constant.Imag(val)) == 0 {
			val = constant.Real(val)
		}
		name := "lit_" + sort + "_" + sanitize(val.ExactString())
		return Scalar{x.decls.Const(name, sort)}
	}
	panic("unreachable")
}

func (x *Exec) strConst(s string) Term {
	h := uint32(2166136261)
	for i := 0; i < len(s); i++ {
		h = (h ^ uint32(s[i])) * 16777619
	}
	pre := sanitize(s)
	if len(pre) > 12 {
		pre = pre[:12]
	}
	return x.decls.Const(fmt.Sprintf("str_%s_%08x", pre, h), "Str")
}

func (x *Exec) step(st *State, ins ssa.Instruction) {
	fr := st.top()
	switch v := ins.(type) {
	case *ssa.Alloc:
		et := v.Type().(*types.Pointer).Elem()
		if !v.Heap {
			c := x.newCell(v.Comment, et)
			fr.cells[v] = c
			if _, isArr := et.Underlying().(*types.Array); isArr {
				x.unsupportedf("local array %s", v.Comment)
			}
			st.cells[c] = zeroValue(et)
			fr.regs[v] = PtrV{Kind: PCell, Cell: c, Root: et}
			return
		}
		fr.regs[v] = x.allocHeap(st, et)
	case *ssa.Store:
		p, ok := x.val(st, v.Addr).(PtrV)
		if !ok {
			x.unsupportedf("store through non-pointer at %s", x.posOf(v))
		}
		x.storePtr(st, p, x.val(st, v.Val), x.posOf(v))
	case *ssa.UnOp:
		fr.regs[v] = x.unop(st, v)
	case *ssa.BinOp:
		fr.regs[v] = x.binop(st, v.Op, x.val(st, v.X), x.val(st, v.Y), v.X.Type(), v.Type(), x.posOf(v))
	case *ssa.FieldAddr:
		p := x.val(st, v.X).(PtrV)
		np := p
		np.Path = append(append([]int(nil), p.Path...), v.Field)
		fr.regs[v] = np
	case *ssa.Field:
		sv := x.val(st, v.X).(StructV)
		fr.regs[v] = sv.Fields[v.Field]
	case *ssa.IndexAddr:
		fr.regs[v] = x.indexAddr(st, v)
	case *ssa.Index:
		x.unsupportedf("index of array/string value at %s", x.posOf(v))
	case *ssa.Slice:
		fr.regs[v] = x.sliceOp(st, v)
	case *ssa.MakeSlice:
		n := x.val(st, v.Len).(Scalar).T
		c := x.val(st, v.Cap).(Scalar).T
		x.addObl(st, "safe", "makeslice", And(Le(IntLit(0), n), Le(n, c)), x.posOf(v), "make: 0 <= len <= cap")
		fr.regs[v] = x.makeSlice(st, v.Type().Underlying().(*types.Slice).Elem(), n, c, true)
	case *ssa.Extract:
		fr.regs[v] = x.val(st, v.Tuple).(TupleV).Elems[v.Index]
	case *ssa.ChangeType:
		fr.regs[v] = x.val(st, v.X)
		if sv, ok := fr.regs[v].(SliceV); ok {
			sv.Elem = v.Type().Underlying().(*types.Slice).Elem()
			fr.regs[v] = sv
		}
	case *ssa.Convert:
		fr.regs[v] = x.convert(st, x.val(st, v.X), v.X.Type(), v.Type(), x.posOf(v))
	case *ssa.ChangeInterface:
		fr.regs[v] = x.val(st, v.X)
	case *ssa.MakeInterface:
		fr.regs[v] = x.makeIface(st, x.val(st, v.X), v.X.Type())
	case *ssa.TypeAssert:
		fr.regs[v] = x.typeAssert(st, v)
	case *ssa.MakeClosure:
		fn := v.Fn.(*ssa.Function)
		var binds []Value
		for _, b := range v.Bindings {
			binds = append(binds, x.val(st, b))
		}
		fr.regs[v] = FuncV{T: x.decls.Fresh("closure", SInt), Name: funcKey(fn), Sig: fn.Signature, Fn: fn, Bind: binds}
	case *ssa.MakeMap:
		fr.regs[v] = x.makeMap(st, v.Type().Underlying().(*types.Map))
	case *ssa.MapUpdate:
		x.mapUpdate(st, x.val(st, v.Map).(MapV), x.val(st, v.Key), x.val(st, v.Value))
	case *ssa.Lookup:
		fr.regs[v] = x.mapLookup(st, v)
	default:
		x.unsupportedf("instruction %T at %s", ins, x.posOf(ins))
	}
}

func (x *Exec) allocRef(st *State) Term {
	r := st.alloc
	st.alloc = Add(st.alloc, IntLit(1))
	return r
}

func (x *Exec) allocHeap(st *State, et types.Type) Value {
	ref := x.allocRef(st)
	if at, ok := et.Underlying().(*types.Array); ok {
		// pointer to array: treated as backing store of a slice
		x.zeroArray(st, at.Elem(), ref)
		st.assign = append(st.assign, Region{IsElem: true, Arr: ref, ElemKey: typeKey(at.Elem()), Desc: "new array"})
		gm := mapRef{smtName("H!ghost!lib"), ArraySort(SInt, SInt)}
		x.heapSet(st, gm, Store(x.heapGet(st, gm), ref, IntLit(1)))
		return PtrV{Kind: PHeap, Ref: ref, Root: et}
	}
	p := PtrV{Kind: PHeap, Ref: ref, Root: et}
	st.assign = append(st.assign, Region{Ref: ref, RootKey: typeKey(et), Desc: "new object"})
	// zero-initialise
	ms := heapMaps(PHeap, et, nil)
	zs := flatten(zeroValue(et))
	for i, m := range ms {
		x.heapSet(st, m, Store(x.heapGet(st, m), ref, zs[i]))
	}
	return p
}

func (x *Exec) zeroArray(st *State, elem types.Type, ref Term) {
	ms := heapMaps(PElem, elem, nil)
	zs := flatten(zeroValue(elem))
	for i, m := range ms {
		inner := elemSortOfArray(m.sort)
		k := Term{fmt.Sprintf("((as const %s) %s)", inner, zs[i].S), inner}
		x.heapSet(st, m, Store(x.heapGet(st, m), ref, k))
	}
}

func (x *Exec) makeSlice(st *State, elem types.Type, n, c Term, zero bool) SliceV {
	ref := x.allocRef(st)
	if zero {
		x.zeroArray(st, elem, ref)
	}
	st.assign = append(st.assign, Region{IsElem: true, Arr: ref, ElemKey: typeKey(elem), Desc: "make"})
	// ghost ownership (C19): arrays allocated by library code are library-owned
	gm := mapRef{smtName("H!ghost!lib"), ArraySort(SInt, SInt)}
	x.heapSet(st, gm, Store(x.heapGet(st, gm), ref, IntLit(1)))
	return SliceV{Arr: ref, Off: IntLit(0), Len: n, Cap: c, Elem: elem}
}

func (x *Exec) unop(st *State, v *ssa.UnOp) Value {
	a := x.val(st, v.X)
	switch v.Op {
	case token.MUL:
		p, ok := a.(PtrV)
		if !ok {
			x.unsupportedf("load through %T at %s", a, x.posOf(v))
		}
		if p.global != nil {
			if t := x.P.rtypeOf[p.global]; t != nil {
				if x.P.rtypeStruct[p.global] {
					if len(p.Path) == 1 {
						return x.rtypeValue(st, t)
					}
					if len(p.Path) == 0 {
						return StructV{Fields: []Value{x.rtypeValue(st, t)}, T: p.Root.Underlying().(*types.Struct)}
					}
				} else {
					return x.rtypeValue(st, t)
				}
			}
		}
		if p.castElem != nil {
			q := p
			q.castElem = nil
			return x.typedView(x.loadPtr(st, q).(SliceV), p.castElem)
		}
		return x.loadPtr(st, p)
	case token.NOT:
		return Scalar{Not(a.(Scalar).T)}
	case token.SUB:
		t := a.(Scalar).T
		if t.Sort == SInt {
			return Scalar{Neg(t)}
		}
		return Scalar{x.eop("neg", t.Sort, t.Sort, t)}
	case token.XOR:
		t := a.(Scalar).T
		if strings.HasPrefix(t.Sort, "(_ BitVec") {
			return Scalar{App(t.Sort, "bvnot", t)}
		}
		return Scalar{x.eop("bitnot", t.Sort, t.Sort, t)}
	}
	x.unsupportedf("unary op %s at %s", v.Op, x.posOf(v))
	return nil
}

// eop applies an uninterpreted operator symbol named after the Go operator and operand sort.
func (x *Exec) eop(op string, argSort string, retSort string, args ...Term) Term {
	name := op + "_" + smtSortName(argSort)
	var as []string
	for _, a := range args {
		as = append(as, a.Sort)
	}
	x.decls.Fun(name, as, retSort)
	return App(retSort, name, args...)
}

func smtSortName(s string) string {
	if strings.HasPrefix(s, "(_ BitVec ") {
		return "BV" + strings.TrimSuffix(strings.TrimPrefix(s, "(_ BitVec "), ")")
	}
	return s
}

func isFloatSort(s string) bool {
	return s == "E_float32" || s == "E_float64" || s == "E_complex64" || s == "E_complex128"
}

func (x *Exec) binop(st *State, op token.Token, av, bv Value, xt types.Type, rt types.Type, pos string) Value {
	// comparisons on non-scalars
	switch a := av.(type) {
	case IfaceV:
		b, ok := bv.(IfaceV)
		if !ok {
			b = IfaceV{IntLit(0), IntLit(0)}
		}
		eq := And(Eq(a.Tag, b.Tag), Eq(a.Val, b.Val))
		if b.Tag.S == "0" {
			eq = Eq(a.Tag, IntLit(0))
		} else if a.Tag.S == "0" {
			eq = Eq(b.Tag, IntLit(0))
		}
		if op == token.EQL {
			return Scalar{eq}
		}
		return Scalar{Not(eq)}
	case SliceV:
		// only comparison with nil is legal
		var other SliceV
		if b, ok := bv.(SliceV); ok {
			other = b
		}
		var eq Term
		if other.Arr.S == "0" || other.Arr.S == "" {
			eq = Eq(a.Arr, IntLit(0))
		} else {
			eq = Eq(other.Arr, IntLit(0))
		}
		if op == token.EQL {
			return Scalar{eq}
		}
		return Scalar{Not(eq)}
	case PtrV:
		b, ok := bv.(PtrV)
		if ok && a.Kind == PHeap && b.Kind == PHeap && len(a.Path) == 0 && len(b.Path) == 0 {
			eq := Eq(a.Ref, b.Ref)
			if op == token.EQL {
				return Scalar{eq}
			}
			return Scalar{Not(eq)}
		}
		// a pointer into an object (field address) against nil: nil exactly when the object reference is
		isNilPtr := func(v Value) bool {
			switch u := v.(type) {
			case Scalar:
				return u.T.S == "0"
			case PtrV:
				return u.Kind == PHeap && len(u.Path) == 0 && u.Ref.S == "0"
			}
			return false
		}
		if a.Kind == PHeap && len(a.Path) > 0 && isNilPtr(bv) {
			eq := Eq(a.Ref, IntLit(0))
			if op == token.EQL {
				return Scalar{eq}
			}
			return Scalar{Not(eq)}
		}
		if sb, ok := bv.(Scalar); ok && sb.T.S == "0" && a.Kind == PHeap && len(a.Path) == 0 {
			eq := Eq(a.Ref, IntLit(0))
			if op == token.EQL {
				return Scalar{eq}
			}
			return Scalar{Not(eq)}
		}
		x.unsupportedf("pointer comparison at %s", pos)
	case FuncV:
		eq := Eq(a.T, IntLit(0))
		if op == token.EQL {
			return Scalar{eq}
		}
		return Scalar{Not(eq)}
	case MapV:
		eq := Eq(a.Ref, IntLit(0))
		if op == token.EQL {
			return Scalar{eq}
		}
		return Scalar{Not(eq)}
	case StructV:
		// field-wise comparison, for structs made of interfaces (identity of dynamic type and payload
		// reference, as for the interface case above), ints, bools and flag bytes only
		b, ok := bv.(StructV)
		if !ok || len(a.Fields) != len(b.Fields) {
			x.unsupportedf("struct comparison at %s", pos)
		}
		var cs []Term
		for i := range a.Fields {
			switch fa := a.Fields[i].(type) {
			case IfaceV:
				fb := b.Fields[i].(IfaceV)
				cs = append(cs, Eq(fa.Tag, fb.Tag), Eq(fa.Val, fb.Val))
			case Scalar:
				fb := b.Fields[i].(Scalar)
				if fa.T.Sort != SInt && fa.T.Sort != SBool && !strings.HasPrefix(fa.T.Sort, "(_ BitVec") {
					x.unsupportedf("struct comparison over %s at %s", fa.T.Sort, pos)
				}
				cs = append(cs, Eq(fa.T, fb.T))
			default:
				x.unsupportedf("struct comparison at %s", pos)
			}
		}
		eq := And(cs...)
		if op == token.EQL {
			return Scalar{eq}
		}
		return Scalar{Not(eq)}
	}
	a := av.(Scalar).T
	var b Term
	switch bb := bv.(type) {
	case Scalar:
		b = bb.T
	case PtrV:
		if bb.Kind == PHeap {
			b = bb.Ref
		}
	}
	return Scalar{x.binTerm(st, op, a, b, pos)}
}

func (x *Exec) binTerm(st *State, op token.Token, a, b Term, pos string) Term {
	s := a.Sort
	if op == token.SHL || op == token.SHR {
		if s == SInt && b.Sort == SInt {
			if n, ok := b.IsLit(); ok && n >= 0 && n < 62 {
				if op == token.SHL {
					return Mul(a, IntLit(1<<uint(n)))
				}
			}
		}
		return x.eop2("sh_"+op.String(), a, b)
	}
	if a.Sort != b.Sort {
		panic(fmt.Sprintf("binop %s: sort mismatch %s vs %s at %s", op, a.Sort, b.Sort, pos))
	}
	switch {
	case s == SInt:
		switch op {
		case token.ADD:
			return Add(a, b)
		case token.SUB:
			return Sub(a, b)
		case token.MUL:
			return Mul(a, b)
		case token.QUO:
			if pos != "" && x.c.Config["divzero"] != "off" {
				x.addObl(st, "safe", "divzero", Ne(b, IntLit(0)), pos, "integer division by zero")
			}
			return QuoInt(a, b)
		case token.REM:
			if pos != "" && x.c.Config["divzero"] != "off" {
				x.addObl(st, "safe", "divzero", Ne(b, IntLit(0)), pos, "integer division by zero")
			}
			return RemInt(a, b)
		case token.LSS:
			return Lt(a, b)
		case token.LEQ:
			return Le(a, b)
		case token.GTR:
			return Gt(a, b)
		case token.GEQ:
			return Ge(a, b)
		case token.EQL:
			return Eq(a, b)
		case token.NEQ:
			return Ne(a, b)
		}
		return x.eop2("int_"+opName(op), a, b)
	case s == SBool:
		switch op {
		case token.EQL:
			return Eq(a, b)
		case token.NEQ:
			return Ne(a, b)
		case token.AND, token.LAND:
			return And(a, b)
		case token.OR, token.LOR:
			return Or(a, b)
		}
	case strings.HasPrefix(s, "(_ BitVec"):
		switch op {
		case token.AND:
			return App(s, "bvand", a, b)
		case token.OR:
			return App(s, "bvor", a, b)
		case token.XOR:
			return App(s, "bvxor", a, b)
		case token.AND_NOT:
			return App(s, "bvand", a, App(s, "bvnot", b))
		case token.ADD:
			return App(s, "bvadd", a, b)
		case token.SUB:
			return App(s, "bvsub", a, b)
		case token.EQL:
			return Eq(a, b)
		case token.NEQ:
			return Ne(a, b)
		case token.LSS:
			return App(SBool, "bvult", a, b)
		case token.LEQ:
			return App(SBool, "bvule", a, b)
		case token.GTR:
			return App(SBool, "bvugt", a, b)
		case token.GEQ:
			return App(SBool, "bvuge", a, b)
		}
	default:
		// abstract element sorts and strings: operator symbols named after the Go operator
		switch op {
		case token.EQL:
			if isFloatSort(s) {
				return x.floatEq(s, a, b)
			}
			return Eq(a, b)
		case token.NEQ:
			if isFloatSort(s) {
				return Not(x.floatEq(s, a, b))
			}
			return Ne(a, b)
		case token.LSS:
			return x.eop("lt", s, SBool, a, b)
		case token.GTR:
			// x > y  is  y < x  for every Go type
			return x.eop("lt", s, SBool, b, a)
		case token.LEQ:
			return x.eop("le", s, SBool, a, b)
		case token.GEQ:
			return x.eop("le", s, SBool, b, a)
		}
		return x.eop2(opName(op), a, b)
	}
	x.unsupportedf("binary op %s on sort %s at %s", op, s, pos)
	return Term{}
}

// floatEq is Go's == on a floating-point or complex element sort: an arbitrary symmetric relation (not reflexive:
// NaN). Symmetry is built in by construction - eq(a,b) := r(a,b) && r(b,a) for an uninterpreted r - so that no
// quantified axiom is needed.
func (x *Exec) floatEq(s string, a, b Term) Term {
	if a.S == b.S {
		return x.eop("eq", s, SBool, a, b)
	}
	return And(x.eop("eq", s, SBool, a, b), x.eop("eq", s, SBool, b, a))
}

func (x *Exec) eop2(op string, a, b Term) Term {
	name := op + "_" + smtSortName(a.Sort)
	x.decls.Fun(name, []string{a.Sort, b.Sort}, a.Sort)
	return App(a.Sort, name, a, b)
}

func opName(op token.Token) string {
	switch op {
	case token.ADD:
		return "add"
	case token.SUB:
		return "sub"
	case token.MUL:
		return "mul"
	case token.QUO:
		return "quo"
	case token.REM:
		return "rem"
	case token.AND:
		return "and"
	case token.OR:
		return "or"
	case token.XOR:
		return "xor"
	case token.AND_NOT:
		return "andnot"
	case token.SHL:
		return "shl"
	case token.SHR:
		return "shr"
	}
	return sanitize(op.String())
}

func (x *Exec) convert(st *State, v Value, from, to types.Type, pos string) Value {
	// slice <-> named slice, string conversions etc.
	switch a := v.(type) {
	case SliceV:
		if ts, ok := to.Underlying().(*types.Slice); ok {
			a.Elem = ts.Elem()
			return a
		}
		x.unsupportedf("conversion of slice to %s at %s", to, pos)
	case Scalar:
		if !isScalarType(to) {
			x.unsupportedf("conversion %s -> %s at %s", from, to, pos)
		}
		fs, ts := a.T.Sort, sortOf(to)
		if fs == ts {
			return a
		}
		if ts == SInt && strings.HasPrefix(a.T.S, "(conv_Int_"+smtSortName(fs)+" ") {
			// int(T(x)) for an int-valued x that came from a size/length: keep the integer
			return Scalar{Term{a.T.S[len("(conv_Int_"+smtSortName(fs)+" ") : len(a.T.S)-1], SInt}}
		}
		name := "conv_" + smtSortName(fs) + "_" + smtSortName(ts)
		x.decls.Fun(name, []string{fs}, ts)
		return Scalar{App(ts, name, a.T)}
	case PtrV:
		// unsafe.Pointer round trips; *[]U -> unsafe.Pointer -> *[]T is a typed view
		if pt, ok := to.Underlying().(*types.Pointer); ok {
			if ts, ok := pt.Elem().Underlying().(*types.Slice); ok {
				cur := typeAtPath(a.Root, a.Path)
				if us, ok := cur.Underlying().(*types.Slice); ok && !types.Identical(us.Elem(), ts.Elem()) {
					a.castElem = ts.Elem()
				}
			}
		}
		return a
	}
	x.unsupportedf("conversion %s -> %s at %s", from, to, pos)
	return nil
}

var stdSizes = types.SizesFor("gc", "amd64")

// typedView reinterprets a slice of U as a slice of T over the same array (storage.Header views).
func (x *Exec) typedView(b SliceV, elem types.Type) SliceV {
	from := stdSizes.Sizeof(b.Elem)
	to := stdSizes.Sizeof(elem)
	if from <= 0 || to <= 0 || to%from != 0 {
		x.unsupportedf("typed view from %s to %s", b.Elem, elem)
	}
	k := IntLit(to / from)
	return SliceV{Arr: b.Arr, Off: QuoInt(b.Off, k), Len: QuoInt(b.Len, k), Cap: QuoInt(b.Cap, k), Elem: elem}
}

func (x *Exec) indexAddr(st *State, v *ssa.IndexAddr) Value {
	base := x.val(st, v.X)
	idx := x.val(st, v.Index).(Scalar).T
	switch b := base.(type) {
	case SliceV:
		x.addObl(st, "safe", "index", And(Le(IntLit(0), idx), Lt(idx, b.Len)), x.posOf(v), "index in range")
		return PtrV{Kind: PElem, Arr: b.Arr, Idx: Idx(b.Off, idx), Root: b.Elem}
	case PtrV:
		if at, ok := b.Root.Underlying().(*types.Array); ok && b.Kind == PHeap && len(b.Path) == 0 {
			x.addObl(st, "safe", "index", And(Le(IntLit(0), idx), Lt(idx, IntLit(at.Len()))), x.posOf(v), "index in range")
			return PtrV{Kind: PElem, Arr: b.Ref, Idx: idx, Root: at.Elem()}
		}
	}
	x.unsupportedf("IndexAddr on %T at %s", base, x.posOf(v))
	return nil
}

func (x *Exec) sliceOp(st *State, v *ssa.Slice) Value {
	base := x.val(st, v.X)
	var s SliceV
	switch b := base.(type) {
	case SliceV:
		s = b
	case PtrV:
		at, ok := b.Root.Underlying().(*types.Array)
		if !ok || b.Kind != PHeap {
			x.unsupportedf("slice of %s at %s", b.Root, x.posOf(v))
		}
		s = SliceV{Arr: b.Ref, Off: IntLit(0), Len: IntLit(at.Len()), Cap: IntLit(at.Len()), Elem: at.Elem()}
	case Scalar:
		x.unsupportedf("string slicing at %s", x.posOf(v))
	default:
		x.unsupportedf("slice of %T at %s", base, x.posOf(v))
	}
	lo := IntLit(0)
	hi := s.Len
	max := s.Cap
	if v.Low != nil {
		lo = x.val(st, v.Low).(Scalar).T
	}
	if v.High != nil {
		hi = x.val(st, v.High).(Scalar).T
	}
	if v.Max != nil {
		max = x.val(st, v.Max).(Scalar).T
	}
	cond := And(Le(IntLit(0), lo), Le(lo, hi), Le(hi, max), Le(max, s.Cap))
	x.addObl(st, "safe", "slice", cond, x.posOf(v), "slice bounds in range")
	st.assume(cond)
	return SliceV{Arr: s.Arr, Off: Add(s.Off, lo), Len: Sub(hi, lo), Cap: Sub(max, lo), Elem: s.Elem}
}

func (x *Exec) makeIface(st *State, v Value, t types.Type) Value {
	if iv, ok := v.(IfaceV); ok {
		return iv
	}
	tag := IntLit(int64(x.P.typeTag(t)))
	switch a := v.(type) {
	case PtrV:
		if a.Kind == PHeap && len(a.Path) == 0 {
			return IfaceV{tag, a.Ref}
		}
		x.unsupportedf("interface holding interior pointer")
	case Scalar:
		if a.T.Sort == SInt {
			// ints are boxed by value so that equal ints give equal interfaces
			return IfaceV{tag, x.box(st, t, v)}
		}
		return IfaceV{tag, x.box(st, t, v)}
	case StructV, SliceV, FuncV, MapV:
		return IfaceV{tag, x.box(st, t, v)}
	}
	x.unsupportedf("MakeInterface of %T", v)
	return nil
}

// box stores a non-pointer dynamic value in a fresh heap object and returns its reference.
func (x *Exec) box(st *State, t types.Type, v Value) Term {
	ref := x.allocRef(st)
	ms := heapMaps(PHeap, t, nil)
	ls := flatten(v)
	for i, m := range ms {
		x.heapSet(st, m, Store(x.heapGet(st, m), ref, ls[i]))
	}
	return ref
}

func (x *Exec) unbox(st *State, t types.Type, ref Term) Value {
	if _, ok := t.Underlying().(*types.Pointer); ok {
		return PtrV{Kind: PHeap, Ref: ref, Root: t.Underlying().(*types.Pointer).Elem()}
	}
	return x.loadPtr(st, PtrV{Kind: PHeap, Ref: ref, Root: t})
}

func (x *Exec) implFact(iface types.Type, tag Term) Term {
	it := iface.Underlying().(*types.Interface)
	name := "impl_" + typeKey(iface)
	x.decls.Fun(name, []string{SInt}, SBool)
	// ground facts for every concrete type registered so far are added when queries are emitted
	x.implIfaces[name] = it
	return App(SBool, name, tag)
}

func (x *Exec) typeAssert(st *State, v *ssa.TypeAssert) Value {
	iv := x.val(st, v.X).(IfaceV)
	var ok Term
	var res Value
	if _, isIface := v.AssertedType.Underlying().(*types.Interface); isIface {
		ok = And(Ne(iv.Tag, IntLit(0)), x.implFact(v.AssertedType, iv.Tag))
		res = iv
	} else {
		ok = Eq(iv.Tag, IntLit(int64(x.P.typeTag(v.AssertedType))))
		// the payload is only meaningful when ok
		res = x.unbox(st, v.AssertedType, iv.Val)
	}
	if v.CommaOk {
		return TupleV{[]Value{res, Scalar{ok}}}
	}
	x.addObl(st, "safe", "typeassert", ok, x.posOf(v), "type assertion holds")
	st.assume(ok)
	return res
}

// rtypeValue is the reflect.Type value denoting Go type t (assumption 9 of DESIGN.md).
func (x *Exec) rtypeValue(st *State, t types.Type) Value {
	id := x.P.rtypeID(t)
	x.rtypeUsed[id] = t
	return IfaceV{IntLit(int64(x.P.typeTag(types.NewPointer(types.Typ[types.Invalid])))), IntLit(int64(id))}
}

// ---------- maps (map[int]T as arrays) ----------

func (x *Exec) makeMap(st *State, t *types.Map) Value {
	ref := x.allocRef(st)
	m := MapV{Ref: ref, T: t}
	pm := x.mapPresent(t)
	x.heapSet(st, pm, Store(x.heapGet(st, pm), ref, Term{"((as const (Array Int Bool)) false)", ArraySort(SInt, SBool)}))
	return m
}

func (x *Exec) mapPresent(t *types.Map) mapRef {
	if sortOf(t.Key()) != SInt {
		x.unsupportedf("map with key type %s", t.Key())
	}
	return mapRef{smtName("MP!" + typeKey(t)), ArraySort(SInt, ArraySort(SInt, SBool))}
}

func (x *Exec) mapUpdate(st *State, m MapV, k, v Value) {
	pm := x.mapPresent(m.T)
	h := x.heapGet(st, pm)
	x.heapSet(st, pm, Store(h, m.Ref, Store(Select(h, m.Ref), k.(Scalar).T, TTrue)))
	if st, ok := m.T.Elem().Underlying().(*types.Struct); ok && st.NumFields() == 0 {
		return
	}
	x.unsupportedf("map with element type %s", m.T.Elem())
}

func (x *Exec) mapLookup(st *State, v *ssa.Lookup) Value {
	m, ok := x.val(st, v.X).(MapV)
	if !ok {
		x.unsupportedf("string index at %s", x.posOf(v))
	}
	k := x.val(st, v.Index).(Scalar).T
	pm := x.mapPresent(m.T)
	present := Select(Select(x.heapGet(st, pm), m.Ref), k)
	val := zeroValue(m.T.Elem())
	if v.CommaOk {
		return TupleV{[]Value{val, Scalar{present}}}
	}
	return val
}

// knownLits collects path facts of the form (= sym literal).
func knownLits(st *State) map[string]string {
	if st.litN == len(st.pc) && st.lits != nil {
		return st.lits
	}
	m := map[string]Term{}
	for _, f := range st.pc {
		collectLitEqs(f, m)
	}
	out := make(map[string]string, len(m))
	for k, v := range m {
		out[k] = v.S
	}
	st.lits, st.litN = out, len(st.pc)
	return out
}

// refutedAntecedent: goal is (=> A B) and some conjunct (= sym lit) of A contradicts a path fact.
func refutedAntecedent(st *State, goal string) bool {
	body := goal[4 : len(goal)-1]
	e1 := sexprEnd(body, 0)
	ante := strings.TrimSpace(body[:e1])
	lits := map[string]Term{}
	collectLitEqs(Term{ante, SBool}, lits)
	if len(lits) == 0 {
		return false
	}
	known := knownLits(st)
	for sym, v := range lits {
		if kv, ok := known[sym]; ok && kv != v.S {
			return true
		}
	}
	return false
}

// runDefers executes the deferred calls of the top frame in LIFO order, then continues with k.
func (x *Exec) runDefers(st *State, k func(*State)) {
	fr := st.top()
	if len(fr.defers) == 0 {
		k(st)
		return
	}
	n := len(fr.defers) - 1
	d, da := fr.defers[n], fr.deferA[n]
	fr.defers, fr.deferA = fr.defers[:n], fr.deferA[:n]
	pos := x.posOf(d)
	next := func(st2 *State, _ Value) { x.runDefers(st2, k) }
	args := da[1:]
	switch f := d.Call.Value.(type) {
	case *ssa.Builtin:
		x.unsupportedf("deferred builtin %s at %s", f.Name(), pos)
	case *ssa.Function:
		x.callByKey(st, funcKey(f), f, f.Signature, args, pos, next)
	default:
		fv, ok := da[0].(FuncV)
		if !ok {
			x.unsupportedf("deferred dynamic call at %s", pos)
		}
		fn, ok := fv.Fn.(*ssa.Function)
		if !ok || fn == nil {
			x.unsupportedf("deferred call of unknown function value at %s", pos)
		}
		x.callFunction(st, funcKey(fn), fn, fn.Signature, args, fv.Bind, pos, next)
	}
}
