package main

import (
	"fmt"
	"go/ast"
	"go/token"
	"go/types"
	"os"
	"path/filepath"
	"sort"
	"strings"
	"sync"

	"golang.org/x/tools/go/packages"
	"golang.org/x/tools/go/ssa"
	"golang.org/x/tools/go/ssa/ssautil"
)

const (
	pkgTensor  = "gorgonia.org/tensor"
	pkgExec    = "gorgonia.org/tensor/internal/execution"
	pkgStorage = "gorgonia.org/tensor/internal/storage"
	pkgNative  = "gorgonia.org/tensor/native"
)

var pkgAlias = map[string]string{
	"tensor":    pkgTensor,
	"execution": pkgExec,
	"storage":   pkgStorage,
	"native":    pkgNative,
}

// expandKey turns "tensor.AP.S" into "gorgonia.org/tensor.AP.S".
func expandKey(k string) string {
	i := strings.Index(k, ".")
	if i < 0 {
		return k
	}
	if full, ok := pkgAlias[k[:i]]; ok {
		return full + k[i:]
	}
	return k
}

func shortKey(k string) string {
	for short, full := range pkgAlias {
		if strings.HasPrefix(k, full+".") {
			return short + k[len(full):]
		}
	}
	return k
}

type Prog struct {
	fset       *token.FileSet
	prog       *ssa.Program
	pkgs       map[string]*ssa.Package
	ppkgs      map[string]*packages.Package
	funcs      map[string]*ssa.Function
	fnFile     map[string]string // key -> base file name
	db         *SpecDB
	repo       string
	tags       string
	namePrefix string // prefix of obligation names for alternative tag sets

	typeTags    map[string]int
	tagTypes    []types.Type
	globalIDs   map[*ssa.Global]int
	rtypeOf     map[*ssa.Global]types.Type // reflect.Type globals -> denoted type
	rtypeStruct map[*ssa.Global]bool       // the global is a one-field struct wrapping the reflect.Type (tensor.Dtype)
	rtypeIDs    map[string]int             // denoted type string -> id
	rtypeNames  map[int]string
	loops       map[*ssa.Function][]*Loop
	mu          sync.Mutex
	gen         sync.Mutex
	schemaMiss  map[string]bool
	funcIDs     map[*ssa.Function]int
}

func funcKey(fn *ssa.Function) string {
	if fn.Pkg == nil && fn.Signature.Recv() == nil {
		if fn.Object() != nil && fn.Object().Pkg() != nil {
			return fn.Object().Pkg().Path() + "." + fn.Name()
		}
		return fn.String()
	}
	if recv := fn.Signature.Recv(); recv != nil {
		t := recv.Type()
		if p, ok := t.(*types.Pointer); ok {
			t = p.Elem()
		}
		if n, ok := t.(*types.Named); ok {
			pkg := ""
			if n.Obj().Pkg() != nil {
				pkg = n.Obj().Pkg().Path() + "."
			}
			return pkg + n.Obj().Name() + "." + fn.Name()
		}
		return fn.String()
	}
	if fn.Parent() != nil {
		return funcKey(fn.Parent()) + "$" + strings.TrimPrefix(fn.Name(), fn.Parent().Name()+"$")
	}
	if fn.Pkg != nil {
		return fn.Pkg.Pkg.Path() + "." + fn.Name()
	}
	return fn.String()
}

func LoadProg(repo string, tags string) (*Prog, error) {
	cfg := &packages.Config{
		Mode:       packages.LoadAllSyntax,
		Dir:        repo,
		BuildFlags: []string{"-tags=" + tags},
		Env:        append(os.Environ(), "GOFLAGS=-mod=mod", "GOPROXY=off", "GOSUMDB=off", "GOTOOLCHAIN=local"),
	}
	pkgs, err := packages.Load(cfg, pkgTensor, pkgExec, pkgStorage, pkgNative)
	if err != nil {
		return nil, err
	}
	for _, p := range pkgs {
		for _, e := range p.Errors {
			return nil, fmt.Errorf("load %s: %v", p.PkgPath, e)
		}
	}
	prog, spkgs := ssautil.AllPackages(pkgs, ssa.NaiveForm|ssa.GlobalDebug)
	prog.Build()
	P := &Prog{
		prog: prog, pkgs: map[string]*ssa.Package{}, ppkgs: map[string]*packages.Package{},
		funcs: map[string]*ssa.Function{}, fnFile: map[string]string{}, repo: repo, tags: tags,
		typeTags: map[string]int{}, globalIDs: map[*ssa.Global]int{}, rtypeOf: map[*ssa.Global]types.Type{}, rtypeStruct: map[*ssa.Global]bool{},
		rtypeIDs: map[string]int{}, rtypeNames: map[int]string{}, loops: map[*ssa.Function][]*Loop{}, schemaMiss: map[string]bool{}, funcIDs: map[*ssa.Function]int{},
	}
	P.fset = prog.Fset
	for i, sp := range spkgs {
		if sp == nil {
			continue
		}
		P.pkgs[sp.Pkg.Path()] = sp
		P.ppkgs[sp.Pkg.Path()] = pkgs[i]
	}
	for fn := range ssautil.AllFunctions(prog) {
		if fn.Synthetic != "" && fn.Blocks == nil {
			continue
		}
		if fn.Synthetic != "" && !strings.HasPrefix(fn.Synthetic, "package init") {
			// wrappers, bound methods, thunks: skip
			continue
		}
		k := funcKey(fn)
		if old, ok := P.funcs[k]; ok && old != fn {
			// instantiations of generics or duplicates; keep the first with a body
			if old.Blocks != nil {
				continue
			}
		}
		P.funcs[k] = fn
		if fn.Pos().IsValid() {
			P.fnFile[k] = filepath.Base(prog.Fset.Position(fn.Pos()).Filename)
		}
	}
	P.resolveRTypeGlobals()
	return P, nil
}

// resolveRTypeGlobals finds package-level vars initialised as reflect.TypeOf(T(c)) (or aliases of
// such vars) in the tensor packages so that type switches over them can be analysed (assumption 9).
func (P *Prog) resolveRTypeGlobals() {
	for _, path := range []string{pkgExec, pkgStorage, pkgTensor} {
		sp := P.pkgs[path]
		if sp == nil {
			continue
		}
		init := sp.Func("init")
		if init == nil {
			continue
		}
		for pass := 0; pass < 3; pass++ {
			for _, b := range init.Blocks {
				for _, ins := range b.Instrs {
					st, ok := ins.(*ssa.Store)
					if !ok {
						continue
					}
					g, ok := st.Addr.(*ssa.Global)
					if !ok {
						// Dtype-like globals: a struct whose only field is the reflect.Type
						if fa, ok2 := st.Addr.(*ssa.FieldAddr); ok2 && fa.Field == 0 {
							if g2, ok3 := fa.X.(*ssa.Global); ok3 {
								if stt, ok4 := g2.Type().(*types.Pointer).Elem().Underlying().(*types.Struct); ok4 && stt.NumFields() == 1 {
									if t := P.denotedType(st.Val); t != nil {
										P.rtypeOf[g2] = t
										P.rtypeStruct[g2] = true
									}
								}
							}
						}
						continue
					}
					if t := P.denotedType(st.Val); t != nil {
						P.rtypeOf[g] = t
					}
				}
			}
		}
	}
}

func (P *Prog) denotedType(v ssa.Value) types.Type {
	switch x := v.(type) {
	case *ssa.Call:
		if callee := x.Call.StaticCallee(); callee != nil && callee.String() == "reflect.TypeOf" {
			if mi, ok := x.Call.Args[0].(*ssa.MakeInterface); ok {
				return mi.X.Type()
			}
		}
	case *ssa.UnOp:
		if x.Op == token.MUL {
			if g, ok := x.X.(*ssa.Global); ok {
				return P.rtypeOf[g]
			}
		}
	}
	return nil
}

func (P *Prog) rtypeID(t types.Type) int {
	k := t.String()
	if id, ok := P.rtypeIDs[k]; ok {
		return id
	}
	id := 1000 + len(P.rtypeIDs)
	P.rtypeIDs[k] = id
	P.rtypeNames[id] = k
	return id
}

func (P *Prog) typeTag(t types.Type) int {
	k := t.String()
	if id, ok := P.typeTags[k]; ok {
		return id
	}
	id := len(P.typeTags) + 1
	P.typeTags[k] = id
	P.tagTypes = append(P.tagTypes, t)
	return id
}

// LoadContracts reads every verif_contracts*.go under the repo.
func (P *Prog) LoadContracts() error {
	P.db = NewSpecDB()
	var files []string
	for _, dir := range []string{"", "internal/execution", "internal/storage", "native"} {
		m, _ := filepath.Glob(filepath.Join(P.repo, dir, "verif_contracts*.go"))
		sort.Strings(m)
		files = append(files, m...)
	}
	if len(files) == 0 {
		return fmt.Errorf("no verif_contracts*.go under %s", P.repo)
	}
	for _, f := range files {
		if err := P.db.LoadFile(f); err != nil {
			return err
		}
	}
	// expand keys
	nc := map[string]*Contract{}
	for k, c := range P.db.Contracts {
		c.Key = expandKey(k)
		nc[c.Key] = c
	}
	P.db.Contracts = nc
	for i, k := range P.db.Order {
		P.db.Order[i] = expandKey(k)
	}
	for _, s := range P.db.Schemas {
		s.Pattern = expandKey(s.Pattern)
	}
	return nil
}

// ---------- loops ----------

type Loop struct {
	Header  *ssa.BasicBlock
	Blocks  map[*ssa.BasicBlock]bool
	Ordinal int
	minPos  token.Pos
	IsRange bool
	RICell  *ssa.Alloc // rangeindex cell for range-over-slice loops
	KeyVar  *ssa.Alloc // the source-level key variable, if any
}

func (P *Prog) Loops(fn *ssa.Function) []*Loop {
	if ls, ok := P.loops[fn]; ok {
		return ls
	}
	byHeader := map[*ssa.BasicBlock]*Loop{}
	for _, b := range fn.Blocks {
		for _, s := range b.Succs {
			if s.Dominates(b) {
				l := byHeader[s]
				if l == nil {
					l = &Loop{Header: s, Blocks: map[*ssa.BasicBlock]bool{s: true}}
					byHeader[s] = l
				}
				// natural loop: nodes reaching b without passing s
				stack := []*ssa.BasicBlock{b}
				for len(stack) > 0 {
					n := stack[len(stack)-1]
					stack = stack[:len(stack)-1]
					if l.Blocks[n] {
						continue
					}
					l.Blocks[n] = true
					stack = append(stack, n.Preds...)
				}
			}
		}
	}
	var ls []*Loop
	for _, l := range byHeader {
		l.minPos = token.Pos(1 << 40)
		for b := range l.Blocks {
			for _, ins := range b.Instrs {
				if p := ins.Pos(); p.IsValid() && p < l.minPos {
					l.minPos = p
				}
				if dr, ok := ins.(*ssa.DebugRef); ok {
					if p := dr.Expr.Pos(); p.IsValid() && p < l.minPos {
						l.minPos = p
					}
				}
			}
		}
		if strings.HasPrefix(l.Header.Comment, "rangeindex.loop") {
			l.IsRange = true
			// header: t = *ri ; t2 = t + 1 ; *ri = t2
			for _, ins := range l.Header.Instrs {
				if st, ok := ins.(*ssa.Store); ok {
					if a, ok := st.Addr.(*ssa.Alloc); ok {
						l.RICell = a
					}
				}
			}
			if len(l.Header.Succs) > 0 {
				body := l.Header.Succs[0]
				for _, ins := range body.Instrs {
					if st, ok := ins.(*ssa.Store); ok {
						if ld, ok := st.Val.(*ssa.UnOp); ok && ld.Op == token.MUL && ld.X == ssa.Value(l.RICell) {
							if a, ok := st.Addr.(*ssa.Alloc); ok {
								l.KeyVar = a
							}
						}
					}
				}
			}
		}
		ls = append(ls, l)
	}
	sort.Slice(ls, func(i, j int) bool {
		if ls[i].minPos != ls[j].minPos {
			return ls[i].minPos < ls[j].minPos
		}
		return len(ls[i].Blocks) > len(ls[j].Blocks)
	})
	for i, l := range ls {
		l.Ordinal = i
	}
	P.loops[fn] = ls
	return ls
}

func astLoopCount(fn *ssa.Function) int {
	n := 0
	syn := fn.Syntax()
	if syn == nil {
		return -1
	}
	var body *ast.BlockStmt
	switch d := syn.(type) {
	case *ast.FuncDecl:
		body = d.Body
	case *ast.FuncLit:
		body = d.Body
	}
	if body == nil {
		return -1
	}
	ast.Inspect(body, func(nd ast.Node) bool {
		switch nd.(type) {
		case *ast.FuncLit:
			return false
		case *ast.ForStmt, *ast.RangeStmt:
			n++
		}
		return true
	})
	return n
}
