package main

import (
	"fmt"
	"os"
	"strings"
)

// solverFeasible asks the solver whether the path condition is satisfiable (used in
// rank-bounded mode to cut infeasible paths early; "unknown" counts as feasible).
func (x *Exec) solverFeasible(st *State) bool {
	if x.solv == nil {
		return true
	}
	o := &Obligation{Hyps: st.pc, Goal: TFalse, decls: x.decls, prog: x}
	q := o.BuildQuery()
	r, _ := x.solv.SolveCached(q)
	if r.Result == "unsat" && traceForks {
		os.WriteFile(fmt.Sprintf("/tmp/pruned_%d.smt2", len(st.pc)), []byte("(set-logic ALL)\n"+q+"(check-sat)\n"), 0o644)
		fmt.Fprintf(os.Stderr, "pruned path (pc %d): %s\n", len(st.pc), strings.Join(st.path, ">"))
	}
	return r.Result != "unsat"
}

// schemaVars supplies extra substitution variables for schema instantiation derived from the
// function's signature (e.g. {T} = element type of the first slice parameter).
func (P *Prog) schemaVars(key string) map[string]string {
	out := map[string]string{}
	fn := P.funcs[key]
	if fn == nil {
		return out
	}
	return sigVars(fn)
}

// solverImplies asks the solver whether the path condition entails t.
func (x *Exec) solverImplies(st *State, t Term) bool {
	c := st.clone()
	c.assume(Not(t))
	return !x.solverFeasible(c)
}
