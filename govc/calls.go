package main

import (
	"fmt"
	"go/token"
	"go/types"
	"strconv"
	"strings"

	"golang.org/x/tools/go/ssa"
)

const maxInlineDepth = 10

func (x *Exec) doCall(st *State, call *ssa.Call, cont func(*State, Value)) {
	cc := call.Call
	pos := x.posOf(call)
	if cc.IsInvoke() {
		recv := x.val(st, cc.Value)
		var args []Value
		args = append(args, recv)
		for _, a := range cc.Args {
			args = append(args, x.val(st, a))
		}
		it := cc.Value.Type()
		key := ifaceMethodKey(it, cc.Method.Name())
		// config devirt <Iface>=<Concrete>[,...]: calls through the interface are resolved to the concrete
		// type's method; that the dynamic type is the concrete one becomes an obligation at the call
		if dv := x.c.Config["devirt"]; dv != "" {
			if iv, ok := recv.(IfaceV); ok {
				for _, pair := range strings.Split(dv, ",") {
					kv := strings.SplitN(strings.TrimSpace(pair), "=", 2)
					if len(kv) != 2 || expandKey(kv[0])+"."+cc.Method.Name() != key {
						continue
					}
					ct := x.P.lookupType(kv[1])
					if ct == nil {
						x.unsupportedf("devirt: unknown type %s", kv[1])
					}
					sel := x.P.prog.MethodSets.MethodSet(ct).Lookup(cc.Method.Pkg(), cc.Method.Name())
					if sel == nil {
						x.unsupportedf("devirt: %s has no method %s", kv[1], cc.Method.Name())
					}
					fn := x.P.prog.MethodValue(sel)
					is := Eq(iv.Tag, IntLit(int64(x.P.typeTag(ct))))
					x.addObl(st, "pre", "devirt:"+kv[1], is, pos, "dynamic type of the receiver is "+kv[1])
					st.assume(is)
					args[0] = x.unbox(st, ct, iv.Val)
					x.callByKey(st, funcKey(fn), fn, fn.Signature, args, pos, cont)
					return
				}
			}
		}
		x.callByKey(st, key, nil, cc.Signature(), args, pos, cont)
		return
	}
	var args []Value
	for _, a := range cc.Args {
		args = append(args, x.val(st, a))
	}
	switch f := cc.Value.(type) {
	case *ssa.Builtin:
		x.builtin(st, f.Name(), call, args, cont)
		return
	case *ssa.Function:
		x.callByKey(st, funcKey(f), f, f.Signature, args, pos, cont)
		return
	}
	// dynamic call
	fv, ok := x.val(st, cc.Value).(FuncV)
	if !ok {
		x.unsupportedf("dynamic call at %s", pos)
	}
	if fn, ok := fv.Fn.(*ssa.Function); ok && fn != nil {
		x.callFunction(st, funcKey(fn), fn, fn.Signature, append(append([]Value(nil), args...)), fv.Bind, pos, cont)
		return
	}
	// symbolic function value: pure uninterpreted application (assumption 10)
	cont(st, x.applyFuncValue(st, fv, cc.Signature(), args, pos))
}

func ifaceMethodKey(it types.Type, method string) string {
	if n, ok := it.(*types.Named); ok {
		pkg := ""
		if n.Obj().Pkg() != nil {
			pkg = n.Obj().Pkg().Path() + "."
		}
		return pkg + n.Obj().Name() + "." + method
	}
	return it.String() + "." + method
}

func (x *Exec) applyFuncValue(st *State, fv FuncV, sig *types.Signature, args []Value, pos string) Value {
	var ats []Term
	var sorts []string
	ats = append(ats, fv.T)
	sorts = append(sorts, SInt)
	for _, a := range args {
		s, ok := a.(Scalar)
		if !ok {
			x.unsupportedf("call of function value with non-scalar argument at %s", pos)
		}
		ats = append(ats, s.T)
		sorts = append(sorts, s.T.Sort)
	}
	res := sig.Results()
	var outs []Value
	for i := 0; i < res.Len(); i++ {
		rt := res.At(i).Type()
		if _, isIface := rt.Underlying().(*types.Interface); isIface {
			// error result of a function value: arbitrary but determined by the arguments
			nameT := fmt.Sprintf("apply!%s!%d.tag", smtName(typeKey(sig)), i)
			nameV := fmt.Sprintf("apply!%s!%d.val", smtName(typeKey(sig)), i)
			x.decls.Fun(nameT, sorts, SInt)
			x.decls.Fun(nameV, sorts, SInt)
			tg := App(SInt, nameT, ats...)
			st.assume(Le(IntLit(0), tg))
			outs = append(outs, IfaceV{tg, App(SInt, nameV, ats...)})
			continue
		}
		if !isScalarType(rt) {
			x.unsupportedf("function value returning %s at %s", rt, pos)
		}
		name := fmt.Sprintf("apply!%s!%d", smtName(typeKey(sig)), i)
		x.decls.Fun(name, sorts, sortOf(rt))
		outs = append(outs, Scalar{App(sortOf(rt), name, ats...)})
	}
	switch len(outs) {
	case 0:
		return nil
	case 1:
		return outs[0]
	}
	return TupleV{outs}
}

func packResults(res []Value) Value {
	switch len(res) {
	case 0:
		return nil
	case 1:
		return res[0]
	}
	return TupleV{res}
}

// callByKey dispatches a call to (in order) a built-in model, a contract, or inlining.
func (x *Exec) callByKey(st *State, key string, fn *ssa.Function, sig *types.Signature, args []Value, pos string, cont func(*State, Value)) {
	// config abstract <concrete method>=<interface method>[,...]: a call to the concrete method is seen through
	// the interface method's contract (e.g. a *FlatIterator used as the abstract offset stream of tensor.Iterator)
	if ab := x.c.Config["abstract"]; ab != "" {
		for _, pair := range strings.Split(ab, ",") {
			kv := strings.SplitN(strings.TrimSpace(pair), "=", 2)
			if len(kv) == 2 && expandKey(kv[0]) == key {
				if c := x.P.ContractFor(expandKey(kv[1])); c != nil {
					x.applyContract(st, c, nil, sig, args, pos, cont)
					return
				}
				x.unsupportedf("abstract: no contract for %s", kv[1])
			}
		}
	}
	if x.modelCall(st, key, sig, args, pos, cont) {
		return
	}
	x.callFunction(st, key, fn, sig, args, nil, pos, cont)
}

func (x *Exec) callFunction(st *State, key string, fn *ssa.Function, sig *types.Signature, args []Value, binds []Value, pos string, cont func(*State, Value)) {
	c := x.P.ContractFor(key)
	if c != nil && !c.Inline {
		if sig == nil && fn != nil {
			sig = fn.Signature
		}
		x.applyContract(st, c, fn, sig, args, pos, cont)
		return
	}
	if fn == nil || fn.Blocks == nil {
		x.unsupportedf("call to %s (no body, no contract) at %s", shortKey(key), pos)
	}
	if !strings.HasPrefix(key, "gorgonia.org/tensor") {
		x.unsupportedf("call to external %s without contract at %s", key, pos)
	}
	depth := st.top().depth + 1
	if depth > maxInlineDepth {
		x.unsupportedf("inline depth exceeded at %s (%s)", pos, key)
	}
	if len(x.P.Loops(fn)) > 0 && x.rank < 0 {
		x.unsupportedf("call to %s, which has loops and no contract, at %s", shortKey(key), pos)
	}
	fr := &Frame{fn: fn, regs: map[ssa.Value]Value{}, cells: map[*ssa.Alloc]*Cell{}, depth: depth}
	for i, p := range fn.Params {
		fr.regs[p] = args[i]
	}
	for i, fvar := range fn.FreeVars {
		fr.regs[fvar] = binds[i]
	}
	fr.ret = func(st2 *State, res []Value) {
		st2.frames = st2.frames[:len(st2.frames)-1]
		cont(st2, packResults(res))
	}
	st.frames = append(st.frames, fr)
	x.inlined[key]++
	x.execBlock(st, nil, fn.Blocks[0])
}

// ContractFor finds the hand-written contract for key or instantiates a matching schema.
func (P *Prog) ContractFor(key string) *Contract {
	if c, ok := P.db.Contracts[key]; ok {
		return c
	}
	if P.schemaMiss[key] {
		return nil
	}
	for _, s := range P.db.Schemas {
		c, _, err := P.db.Instantiate(s, key, P.schemaVars(key))
		if err != nil {
			panic(err)
		}
		if c != nil {
			P.db.Contracts[key] = c
			return c
		}
	}
	P.schemaMiss[key] = true
	return nil
}

// ---------- contract application at a call site ----------

type callEnvNames struct {
	params  []string
	results []string
}

func contractNames(c *Contract, fn *ssa.Function, sig *types.Signature) callEnvNames {
	var n callEnvNames
	if len(c.Params) > 0 {
		n.params = c.Params
	} else if fn != nil && len(fn.Params) > 0 {
		for _, p := range fn.Params {
			n.params = append(n.params, p.Name())
		}
	} else if sig != nil {
		if sig.Recv() != nil {
			n.params = append(n.params, sig.Recv().Name())
		}
		for i := 0; i < sig.Params().Len(); i++ {
			n.params = append(n.params, sig.Params().At(i).Name())
		}
	}
	if len(c.Results) > 0 {
		n.results = c.Results
	} else if sig != nil {
		for i := 0; i < sig.Results().Len(); i++ {
			nm := sig.Results().At(i).Name()
			if nm == "" || nm == "_" {
				nm = fmt.Sprintf("result%d", i)
			}
			n.results = append(n.results, nm)
		}
	}
	return n
}

func (x *Exec) applyContract(st *State, c *Contract, fn *ssa.Function, sig *types.Signature, args []Value, pos string, cont func(*State, Value)) {
	if sig == nil && fn != nil {
		sig = fn.Signature
	}
	nm := contractNames(c, fn, sig)
	if len(nm.params) != len(args) {
		x.unsupportedf("contract %s: %d parameter names for %d arguments", c.Key, len(nm.params), len(args))
	}
	x.usedContracts[c.Key] = true
	names := map[string]Value{}
	for i, p := range nm.params {
		names[p] = args[i]
	}
	pre := st.clone()
	env := &Env{x: x, st: st, old: pre, names: names}
	for _, l := range c.Lets {
		names[l.Name] = env.eval(l.E)
	}
	short := shortKey(c.Key)
	for _, cl := range c.Clauses {
		if cl.Kind == "requires" {
			g := env.evalBool(cl.E)
			x.addObl(st, "pre", short+":"+cl.Label, g, pos, "precondition of "+short+": "+cl.Src)
			st.assume(g)
		}
	}
	// frame: havoc the callee's assignable regions
	var regs []Region
	for _, cl := range c.Clauses {
		if cl.Kind == "assigns" {
			for _, e := range cl.Exprs {
				regs = append(regs, env.evalRegion(e)...)
			}
		}
	}
	for _, r := range regs {
		x.checkRegionAssignable(st, r, pos, short)
	}
	if len(regs) > 0 {
		x.havoc(st, regs, "call "+short)
	}
	hasAssigns := false
	for _, cl := range c.Clauses {
		if cl.Kind == "assigns" {
			hasAssigns = true
		}
	}
	if !hasAssigns && c.Config["frame"] == "any" {
		// the callee states no frame: everything on the heap may have changed
		if !x.assignAll {
			x.addObl(st, "assigns", "call", TFalse, pos, "callee "+short+" has an unrestricted frame; the caller needs one too")
		}
		x.events++
		ev := havocEvent{all: true, id: x.events}
		for name, cur := range st.heap {
			st.heap[name] = x.applyHavoc(st, name, x.mapSorts[name], cur, ev)
		}
		st.havocs = append(st.havocs, ev)
	}
	// the callee may allocate: bump the allocation counter first so that result references are
	// only known to be below the new counter
	na := x.decls.Fresh("alloc", SInt)
	st.assume(Le(st.alloc, na))
	st.alloc = na
	// results
	var res []Value
	if sig != nil {
		for i := 0; i < sig.Results().Len(); i++ {
			rv := x.freshOfType(st, sig.Results().At(i).Type(), "ret_"+sanitize(short)+"_"+nm.results[i])
			res = append(res, rv)
			names[nm.results[i]] = rv
		}
		if len(res) == 1 {
			names["result"] = res[0]
		}
	}
	// results bound to locations inside other objects; an undetermined "when" condition forks the path
	var finish func(st *State, res []Value, names map[string]Value, from int)
	finish = func(st *State, res []Value, names map[string]Value, from int) {
		env2 := &Env{x: x, st: st, old: pre, names: names, assuming: true}
		for bi := from; bi < len(c.Binds); bi++ {
			bd := c.Binds[bi]
			if bd.Cond != nil {
				ct := env2.evalBool(bd.Cond)
				if !impliedByPath(st, ct) {
					if impliedByPath(st, Not(ct)) {
						continue
					}
					if !x.solverImplies(st, ct) {
						if x.solverImplies(st, Not(ct)) {
							continue
						}
						// fork: condition false (result stays a fresh reference) ...
						st2 := st.clone()
						st2.path = append(st2.path, "unbound")
						st2.assume(Not(ct))
						res2 := append([]Value(nil), res...)
						names2 := map[string]Value{}
						for k, v := range names {
							names2[k] = v
						}
						x.guarded(st2, nil, func() { finish(st2, res2, names2, bi+1) })
						// ... and condition true
						st.path = append(st.path, "bound")
						st.assume(ct)
					}
				}
			}
			pv, ok := env2.eval(bd.E).(PtrV)
			if !ok {
				x.unsupportedf("binds %s of %s: not a pointer", bd.Name, short)
			}
			for i := range res {
				if nm.results[i] == bd.Name {
					res[i] = pv
					names[bd.Name] = pv
				}
			}
		}
		npc := len(st.pc)
		for _, cl := range c.Clauses {
			if cl.Kind == "ensures" {
				post := env2.evalBool(cl.E)
				if post.IsFalse() && !st.dead {
					// a callee postcondition that is literally false here would silently close the path:
					// the path must then be infeasible on its own, otherwise the contracts are inconsistent
					x.addObl(st, "consistent", short+":"+cl.Label, TFalse, pos, "postcondition of "+short+" ["+cl.Label+"] evaluates to false at this call; the call must be unreachable")
				}
				st.assume(post)
			}
		}
		// results whose value the contract fixes to a literal are replaced by that literal
		// (rank-bounded callers rely on concrete lengths to unroll loops)
		lits := map[string]Term{}
		for _, f := range st.pc[npc:] {
			collectLitEqs(f, lits)
		}
		if len(lits) > 0 {
			for i, r := range res {
				if pv, ok := r.(PtrV); ok && (pv.Kind != PHeap || len(pv.Path) > 0) {
					continue
				}
				ls := flatten(r)
				changed := false
				for j, l := range ls {
					if v, ok := lits[l.S]; ok && v.Sort == l.Sort {
						ls[j] = v
						changed = true
					}
				}
				if changed {
					res[i] = rebuild(r, ls)
				}
			}
		}
		cont(st, packResults(res))
	}
	finish(st, res, names, 0)
}

// ---------- frames ----------

func (x *Exec) checkAssignObj(st *State, p PtrV, pos string) {
	if x.assignAll || p.global != nil && false {
		return
	}
	ms := heapMaps(PHeap, p.Root, p.Path)
	rootKey := typeKey(p.Root)
	var alts []Term
	for _, r := range st.assign {
		if r.IsElem || r.RootKey != rootKey {
			continue
		}
		okAll := true
		for _, m := range ms {
			if !strings.HasPrefix(m.name, smtName("H!"+rootKey+"!"+r.PathPref)) {
				okAll = false
			}
		}
		if okAll {
			alts = append(alts, Eq(r.Ref, p.Ref))
		}
	}
	x.addObl(st, "assigns", "field", Or(alts...), pos, "write to "+rootKey+"."+pathName(p.Root, p.Path)+" must be in the assigns frame")
}

func (x *Exec) checkAssignElem(st *State, p PtrV, pos string) {
	if x.assignAll {
		return
	}
	ek := typeKey(p.Root)
	var alts []Term
	for _, r := range st.assign {
		if !r.IsElem || r.ElemKey != ek {
			continue
		}
		c := Eq(r.Arr, p.Arr)
		if r.Lo.S != "" {
			c = And(c, Le(r.Lo, p.Idx), Lt(p.Idx, r.Hi))
		}
		alts = append(alts, c)
	}
	x.addObl(st, "assigns", "elem", Or(alts...), pos, "element write must be in the assigns frame")
}

func (x *Exec) checkRegionAssignable(st *State, r Region, pos, callee string) {
	if x.assignAll {
		return
	}
	var alts []Term
	if r.IsElem {
		// the nil slice has no elements: a frame entry over it licenses no write
		alts = append(alts, Eq(r.Arr, IntLit(0)))
	} else if r.RootKey == "ghost" {
		// ghost state of the nil array is never consulted (specifications guard it by isnil)
		alts = append(alts, Eq(r.Ref, IntLit(0)))
	}
	for _, a := range st.assign {
		if !r.IsElem && r.RootKey == "ghost" && a.IsElem && a.Lo.S == "" {
			// ghost state attached to an array the caller may overwrite entirely (e.g. ownership of a
			// slice it allocated) may change with it
			alts = append(alts, Eq(a.Arr, r.Ref))
			continue
		}
		if !r.IsElem && r.RootKey == "ghost" && !a.IsElem && a.RootKey != "ghost" && a.PathPref == "" {
			// ghost state attached to an object the caller may overwrite entirely (one it allocated)
			alts = append(alts, Eq(a.Ref, r.Ref))
			continue
		}
		if a.IsElem != r.IsElem {
			continue
		}
		if r.IsElem {
			if a.ElemKey != r.ElemKey {
				if a.ElemKey == "uint8" && a.Lo.S == "" {
					// a whole byte array (a tensor's raw storage) licenses writes through its typed views
					alts = append(alts, Eq(a.Arr, r.Arr))
				}
				continue
			}
			c := Eq(a.Arr, r.Arr)
			if a.Lo.S != "" {
				if r.Lo.S == "" {
					continue
				}
				c = And(c, Or(Ge(r.Lo, r.Hi), And(Le(a.Lo, r.Lo), Le(r.Hi, a.Hi))))
			}
			alts = append(alts, c)
		} else {
			if a.RootKey != r.RootKey || !strings.HasPrefix(r.PathPref, a.PathPref) {
				continue
			}
			alts = append(alts, Eq(a.Ref, r.Ref))
		}
	}
	x.addObl(st, "assigns", "call", Or(alts...), pos, "frame of callee "+callee+" ("+r.Desc+") must be within the caller's frame")
}

// havoc replaces the content of the given regions by fresh values in every heap map;
// the event is recorded so that maps first touched later are treated alike.
func (x *Exec) havoc(st *State, regs []Region, why string) {
	x.events++
	ev := havocEvent{regs: append([]Region(nil), regs...), id: x.events}
	for name, cur := range st.heap {
		st.heap[name] = x.applyHavoc(st, name, x.mapSorts[name], cur, ev)
	}
	st.havocs = append(st.havocs, ev)
}

type havocEvent struct {
	regs []Region
	id   int
	all  bool // every location (callee without a frame)
}

func (x *Exec) applyHavoc(st *State, name, sort string, cur Term, ev havocEvent) Term {
	if ev.all {
		return x.decls.Const(fmt.Sprintf("%s@all%d", name, ev.id), sort)
	}
	for ri, r := range ev.regs {
		if r.IsElem {
			if !strings.HasPrefix(name, smtName("M!"+r.ElemKey+"!")) {
				continue
			}
			inner := elemSortOfArray(sort)
			fresh := x.decls.Const(fmt.Sprintf("%s@h%d_%d", name, ev.id, ri), inner)
			if r.Lo.S != "" {
				j := Term{"j!h", SInt}
				st.assume(Forall([]Term{j}, Implies(Or(Lt(j, r.Lo), Ge(j, r.Hi)),
					Eq(Select(fresh, j), Select(Select(cur, r.Arr), j)))))
			}
			cur = Store(cur, r.Arr, fresh)
		} else {
			if !strings.HasPrefix(name, smtName("H!"+r.RootKey+"!"+r.PathPref)) {
				continue
			}
			fresh := x.decls.Const(fmt.Sprintf("%s@h%d_%d", name, ev.id, ri), elemSortOfArray(sort))
			cur = Store(cur, r.Ref, fresh)
		}
	}
	if len(cur.S) > 200 {
		c := x.decls.Const(fmt.Sprintf("%s@e%d", name, ev.id), sort)
		st.assume(Term{"(= " + c.S + " " + cur.S + ")", SBool})
		cur = c
	}
	return cur
}

// ---------- loops ----------

func (x *Exec) loopClauses(l *Loop, kind string) []*Clause {
	var out []*Clause
	if x.c == nil {
		return nil
	}
	for _, cl := range x.c.Clauses {
		if cl.Loop == l.Ordinal && cl.Kind == kind {
			out = append(out, cl)
		}
	}
	return out
}

func (x *Exec) loopIsCut(l *Loop) bool {
	if len(x.loopClauses(l, "unroll")) > 0 {
		return false
	}
	if len(x.loopClauses(l, "invariant")) > 0 || len(x.loopClauses(l, "step")) > 0 {
		return true
	}
	return x.rank < 0
}

func (x *Exec) loopEnv(st *State, l *Loop) *Env {
	fr := st.frames[0]
	names := map[string]Value{}
	declOf := map[string]*ssa.Alloc{}
	for k, v := range fr.names {
		names["old_"+k] = v
	}
	// current values of the named cells in scope at the loop header: variables declared
	// inside the loop body (their Alloc sits in a body block) are not visible to invariants
	for a, c := range fr.cells {
		if a.Comment == "" {
			continue
		}
		if l != nil && l.Blocks[a.Block()] {
			continue
		}
		if v, ok := st.cells[c]; ok {
			if prev, dup := names[a.Comment]; dup && prev != nil {
				// shadowing outside the loop: keep the innermost (latest) declaration
				if prevA := declOf[a.Comment]; prevA != nil && prevA.Pos() > a.Pos() {
					continue
				}
			}
			names[a.Comment] = v
			declOf[a.Comment] = a
		}
	}
	if l != nil && l.IsRange && l.RICell != nil {
		if c, ok := fr.cells[l.RICell]; ok {
			ri := st.cells[c].(Scalar).T
			next := Scalar{Add(ri, IntLit(1))}
			names["_i"] = next
			if l.KeyVar != nil {
				names[l.KeyVar.Comment] = next
			}
		}
	}
	env := &Env{x: x, st: st, old: x.entry, names: names, head: st.loopHd[l]}
	for _, ld := range x.c.Lets {
		if _, shadow := names[ld.Name]; !shadow {
			names[ld.Name] = x.entryLets[ld.Name]
		}
	}
	return env
}

func (x *Exec) loopEntry(st *State, l *Loop) {
	env := x.loopEnv(st, l)
	for _, cl := range x.loopClauses(l, "invariant") {
		x.addObl(st, "inv_entry", fmt.Sprintf("loop%d.%s", l.Ordinal, cl.Label), env.evalBool(cl.E), "", "invariant holds on loop entry: "+cl.Src)
	}
	if loopAllocates(l) {
		na := x.decls.Fresh("alloc", SInt)
		st.assume(Le(st.alloc, na))
		st.alloc = na
	}
	// havoc cells assigned in the loop
	fr := st.frames[0]
	st0cells := map[*Cell]Value{}
	for _, c := range fr.cells {
		st0cells[c] = st.cells[c]
	}
	for b := range l.Blocks {
		for _, ins := range b.Instrs {
			if s, ok := ins.(*ssa.Store); ok {
				if a, ok := s.Addr.(*ssa.Alloc); ok && !a.Heap {
					if c, ok := fr.cells[a]; ok {
						st.cells[c] = x.freshOfType(st, c.typ, "lp_"+a.Comment)
					}
				}
				// stores into fields of local struct cells
				if fa, ok := s.Addr.(*ssa.FieldAddr); ok {
					if a, ok := rootAlloc(fa); ok && !a.Heap {
						if c, ok := fr.cells[a]; ok {
							st.cells[c] = x.freshOfType(st, c.typ, "lp_"+a.Comment)
						}
					}
				}
			}
		}
	}
	if len(st.assign) > 0 && loopWritesHeap(l) {
		if targets, ok := x.loopStoreRegions(st0cells, st, l); ok {
			// every heap write of the loop is an element store into a slice that is fixed on entry:
			// of the assignable regions only those that may be one of these arrays are havocked
			// (with their ranges); regions over provably different arrays keep their content
			var regs []Region
			for _, a := range st.assign {
				if !a.IsElem {
					continue
				}
				may := false
				for _, t := range targets {
					if t.ElemKey == a.ElemKey && !knownDistinct(a.Arr.S, t.Arr.S) && !allocatedLater(st, a.Arr.S, t.Arr.S) && !allocatedLater(st, t.Arr.S, a.Arr.S) {
						may = true
					}
				}
				if may {
					regs = append(regs, a)
				}
			}
			if len(regs) > 0 {
				x.havoc(st, regs, fmt.Sprintf("loop %d (element stores)", l.Ordinal))
			}
		} else {
			x.havoc(st, st.assign, fmt.Sprintf("loop %d", l.Ordinal))
		}
	}
	env = x.loopEnv(st, l)
	env.assuming = true
	for _, cl := range x.loopClauses(l, "invariant") {
		st.assume(env.evalBool(cl.E))
	}
	st.loopHd[l] = st.clone()
}

// loopSplits returns the states obtained by fixing a loop variable to each value of a literal range
// (clause "loop N split v lo hi"); with no such clause the state itself.
func (x *Exec) loopSplits(st *State, l *Loop) []*State {
	cls := x.loopClauses(l, "split")
	if len(cls) == 0 {
		return []*State{st}
	}
	cl := cls[0]
	env := x.loopEnv(st, l)
	lo, ok1 := env.evalInt(cl.Exprs[0]).IsLit()
	hi, ok2 := env.evalInt(cl.Exprs[1]).IsLit()
	if !ok1 || !ok2 || hi-lo > 16 {
		return []*State{st}
	}
	fr := st.frames[0]
	var cell *Cell
	for a, c := range fr.cells {
		if a.Comment == cl.Label && !l.Blocks[a.Block()] {
			cell = c
		}
	}
	if cell == nil {
		x.unsupportedf("loop split: no variable %s", cl.Label)
	}
	var out []*State
	for v := lo; v <= hi; v++ {
		s2 := st.clone()
		cur := s2.cells[cell].(Scalar).T
		s2.assume(Eq(cur, IntLit(v)))
		if s2.dead {
			continue
		}
		s2.cells[cell] = Scalar{IntLit(v)}
		s2.path = append(s2.path, fmt.Sprintf("%s=%d", cl.Label, v))
		hd := s2.clone()
		s2.loopHd[l] = hd
		out = append(out, s2)
	}
	return out
}

func rootAlloc(fa *ssa.FieldAddr) (*ssa.Alloc, bool) {
	var v ssa.Value = fa
	for {
		switch y := v.(type) {
		case *ssa.FieldAddr:
			v = y.X
		case *ssa.Alloc:
			return y, true
		default:
			return nil, false
		}
	}
}

// loopStoreRegions: when all heap writes of the loop are stores through IndexAddr of a slice that is
// either defined outside the loop or loaded from a local cell the loop does not assign, the
// written arrays are known on entry; the result lists them (whole arrays). ok=false otherwise
// (calls, map updates, stores through other pointers).
func (x *Exec) loopStoreRegions(entryCells map[*Cell]Value, st *State, l *Loop) ([]Region, bool) {
	fr := st.frames[0]
	assigned := map[*ssa.Alloc]bool{}
	for b := range l.Blocks {
		for _, ins := range b.Instrs {
			if s, ok := ins.(*ssa.Store); ok {
				if a, ok := s.Addr.(*ssa.Alloc); ok {
					assigned[a] = true
				}
				if fa, ok := s.Addr.(*ssa.FieldAddr); ok {
					if a, ok := rootAlloc(fa); ok {
						assigned[a] = true
					}
				}
			}
		}
	}
	var regs []Region
	seen := map[string]bool{}
	for b := range l.Blocks {
		for _, ins := range b.Instrs {
			switch s := ins.(type) {
			case *ssa.Store:
				if a, ok := s.Addr.(*ssa.Alloc); ok && !a.Heap {
					continue
				}
				if fa, ok := s.Addr.(*ssa.FieldAddr); ok {
					if a, ok := rootAlloc(fa); ok && !a.Heap {
						continue
					}
				}
				ia, ok := s.Addr.(*ssa.IndexAddr)
				if !ok {
					return nil, false
				}
				var v Value
				switch xv := ia.X.(type) {
				case *ssa.UnOp:
					a, ok := xv.X.(*ssa.Alloc)
					if !ok || a.Heap || assigned[a] || xv.Op != token.MUL {
						return nil, false
					}
					c, ok := fr.cells[a]
					if !ok {
						return nil, false
					}
					v = entryCells[c]
				case *ssa.Parameter:
					v = fr.regs[xv]
				default:
					in, ok := ia.X.(ssa.Instruction)
					if !ok || l.Blocks[in.Block()] {
						return nil, false
					}
					v = fr.regs[ia.X]
				}
				sv, ok := v.(SliceV)
				if !ok {
					return nil, false
				}
				k := typeKey(sv.Elem) + "|" + sv.Arr.S
				if !seen[k] {
					seen[k] = true
					regs = append(regs, Region{IsElem: true, Arr: sv.Arr, ElemKey: typeKey(sv.Elem), Desc: "stored in loop"})
				}
			case *ssa.Call:
				if b, ok := s.Call.Value.(*ssa.Builtin); ok {
					switch b.Name() {
					case "len", "cap", "ssa:wrapnilchk", "ssa:deferstack":
						continue
					}
				}
				return nil, false
			case *ssa.MapUpdate, *ssa.Go, *ssa.Defer, *ssa.Send:
				return nil, false
			}
		}
	}
	return regs, true
}

// allocatedLater: ref is known (by a path fact "ref < counter+k") to have existed before the
// allocation that produced later (= counter'+k' with counter' not older): the two differ.
func allocatedLater(st *State, ref, later string) bool {
	lb, lo, ok := allocParts(later)
	if !ok {
		return false
	}
	key := "(< " + ref + " "
	for _, f := range st.pc {
		i := strings.Index(f.S, key)
		if i < 0 {
			continue
		}
		rest := f.S[i+len(key):]
		e := sexprEnd(rest, 0)
		bb, bo, ok := allocParts(rest[:e])
		if !ok {
			continue
		}
		if bb == lb {
			if bo <= lo {
				return true
			}
			continue
		}
		if allocOrd(bb) < allocOrd(lb) {
			return true
		}
	}
	return false
}

// allocOrd orders allocation counters by creation: alloc0, then alloc!<n> with increasing n.
func allocOrd(c string) int {
	if c == "alloc0" {
		return -1
	}
	if strings.HasPrefix(c, "alloc!") {
		if n, err := strconv.Atoi(c[len("alloc!"):]); err == nil {
			return n
		}
	}
	return 1 << 30
}

func loopWritesHeap(l *Loop) bool {
	for b := range l.Blocks {
		for _, ins := range b.Instrs {
			switch s := ins.(type) {
			case *ssa.Store:
				if a, ok := s.Addr.(*ssa.Alloc); ok && !a.Heap {
					continue
				}
				if fa, ok := s.Addr.(*ssa.FieldAddr); ok {
					if a, ok := rootAlloc(fa); ok && !a.Heap {
						continue
					}
				}
				return true
			case *ssa.Call:
				if b, ok := s.Call.Value.(*ssa.Builtin); ok {
					switch b.Name() {
					case "len", "cap", "ssa:wrapnilchk", "ssa:deferstack":
						continue
					}
				}
				return true
			case *ssa.MapUpdate:
				return true
			}
		}
	}
	return false
}

func loopAllocates(l *Loop) bool {
	for b := range l.Blocks {
		for _, ins := range b.Instrs {
			switch s := ins.(type) {
			case *ssa.Alloc:
				if s.Heap {
					return true
				}
			case *ssa.MakeSlice, *ssa.MakeMap, *ssa.MakeInterface, *ssa.MakeClosure:
				return true
			case *ssa.Call:
				if b, ok := s.Call.Value.(*ssa.Builtin); ok {
					switch b.Name() {
					case "len", "cap", "copy", "ssa:wrapnilchk", "ssa:deferstack":
						continue
					}
				}
				return true
			}
		}
	}
	return false
}

func (x *Exec) loopBackEdge(st *State, l *Loop) {
	env := x.loopEnv(st, l)
	for _, cl := range x.loopClauses(l, "invariant") {
		x.addObl(st, "inv_keep", fmt.Sprintf("loop%d.%s", l.Ordinal, cl.Label), env.evalBool(cl.E), "", "invariant preserved by the loop body: "+cl.Src)
	}
	for _, cl := range x.loopClauses(l, "step") {
		x.addObl(st, "step", fmt.Sprintf("loop%d.%s", l.Ordinal, cl.Label), env.evalBool(cl.E), "", "effect of one iteration: "+cl.Src)
	}
	for _, cl := range x.loopClauses(l, "decreases") {
		hd := st.loopHd[l]
		envH := x.loopEnv(hd, l)
		before := envH.eval(cl.E).(Scalar).T
		after := env.eval(cl.E).(Scalar).T
		x.addObl(st, "decreases", fmt.Sprintf("loop%d", l.Ordinal), And(Lt(after, before), Le(IntLit(0), before)), "", "loop variant decreases and is bounded: "+cl.Src)
	}
}

// collectLitEqs finds conjuncts of the form (= sym literal) / (= literal sym).
func collectLitEqs(f Term, out map[string]Term) {
	s := f.S
	if strings.HasPrefix(s, "(and ") {
		body := s[5 : len(s)-1]
		i := 0
		for i < len(body) {
			e := sexprEnd(body, i)
			part := strings.TrimSpace(body[i:e])
			if part != "" {
				collectLitEqs(Term{part, SBool}, out)
			}
			i = e
		}
		return
	}
	if strings.HasPrefix(s, "(= ") {
		body := s[3 : len(s)-1]
		e1 := sexprEnd(body, 0)
		a, b := strings.TrimSpace(body[:e1]), strings.TrimSpace(body[e1:])
		isLit := func(s string) bool {
			if _, ok := (Term{s, SInt}).IsLit(); ok {
				return true
			}
			return strings.HasPrefix(s, "lit_") && !strings.ContainsAny(s, "( ")
		}
		if isLit(b) && !isLit(a) {
			out[a] = Term{b, SInt}
		} else if isLit(a) && !isLit(b) {
			out[b] = Term{a, SInt}
		}
	}
}
