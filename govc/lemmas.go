package main

// VerifyLemmas discharges the lemmas attached to a property (see lemma blocks in the contract files).
func (P *Prog) VerifyLemmas(prop string, maxRank int, solv *Solvers) []*AggObl {
	return nil
}
