package main

import (
	"context"
	"crypto/sha256"
	"encoding/hex"
	"fmt"
	"go/types"
	"os"
	"os/exec"
	"path/filepath"
	"regexp"
	"sort"
	"strings"
	"sync"
	"time"
)

const prelude = `(define-fun goquo ((a Int) (b Int)) Int (ite (>= a 0) (ite (> b 0) (div a b) (- (div a (- b)))) (ite (> b 0) (- (div (- a) b)) (div (- a) (- b)))))
(define-fun gorem ((a Int) (b Int)) Int (- a (* b (goquo a b))))
`

var tokenRe = regexp.MustCompile(`[^\s()]+`)

var tokCache sync.Map // term text -> []string of distinct tokens

// tokensOf returns the distinct symbols of an s-expression (memoised: hypotheses are shared by
// the many obligations generated along one path).
func tokensOf(s string) []string {
	if v, ok := tokCache.Load(s); ok {
		return v.([]string)
	}
	seen := map[string]bool{}
	var out []string
	i := 0
	for i < len(s) {
		c := s[i]
		if c == ' ' || c == '(' || c == ')' || c == '\n' || c == '\t' {
			i++
			continue
		}
		j := i
		for j < len(s) && s[j] != ' ' && s[j] != '(' && s[j] != ')' && s[j] != '\n' && s[j] != '\t' {
			j++
		}
		t := s[i:j]
		if !seen[t] {
			seen[t] = true
			out = append(out, t)
		}
		i = j
	}
	if len(s) > 64 {
		tokCache.Store(s, out)
	}
	return out
}

var sortRe = regexp.MustCompile(`\b(E_[A-Za-z0-9]+|Str)\b`)

// BuildQuery renders the obligation as an SMT-LIB script (without check-sat/get-model tail).
func (o *Obligation) BuildQuery() string {
	x := o.prog
	var asserts []string
	for _, h := range relevantHyps(o.Hyps, o.Goal) {
		asserts = append(asserts, h.S)
	}
	goal := o.Goal.S
	// global facts
	var facts []string
	var extraDecl []string
	body := strings.Join(asserts, "\n") + "\n" + goal
	used := map[string]bool{}
	addTokens := func(s string) {
		for _, t := range tokensOf(s) {
			used[t] = true
		}
	}
	for _, a := range asserts {
		addTokens(a)
	}
	addTokens(goal)
	// closure over define-fun(-rec) bodies: only symbols that are used can pull in more
	work := make([]string, 0, len(used))
	for t := range used {
		work = append(work, t)
	}
	for len(work) > 0 {
		t := work[len(work)-1]
		work = work[:len(work)-1]
		d, ok := x.decls.decl[t]
		if !ok || !strings.HasPrefix(d, "(define-fun") {
			continue
		}
		for _, u := range tokensOf(d) {
			if !used[u] {
				used[u] = true
				work = append(work, u)
			}
		}
	}
	// declarations of the used symbols, in creation order
	var declIdx []int
	for t := range used {
		if i, ok := x.decls.index[t]; ok {
			declIdx = append(declIdx, i)
		}
	}
	sort.Ints(declIdx)
	// implements-facts and reflect.Type facts
	x.P.mu.Lock()
	var inames []string
	for n := range x.implIfaces {
		inames = append(inames, n)
	}
	sort.Strings(inames)
	for _, n := range inames {
		if !used[n] {
			continue
		}
		it := x.implIfaces[n]
		for i, ct := range x.P.tagTypes {
			impl := types.Implements(ct, it)
			facts = append(facts, fmt.Sprintf("(= (%s %d) %v)", n, i+1, impl))
		}
	}
	x.P.mu.Unlock()
	if used["rtype_size"] || used["rtype_kind"] {
		sizes := types.SizesFor("gc", "amd64")
		var ids []int
		for id := range x.rtypeUsed {
			ids = append(ids, id)
		}
		sort.Ints(ids)
		for _, id := range ids {
			t := x.rtypeUsed[id]
			if used["rtype_size"] {
				facts = append(facts, fmt.Sprintf("(= (rtype_size %d) %d)", id, sizes.Sizeof(t)))
			}
		}
		if used["rtype_size"] {
			facts = append(facts, "(forall ((r!s Int)) (> (rtype_size r!s) 0))")
		}
		if used["rtype_kind"] && used["rtype_size"] {
			// a type of a fixed-size basic kind has that kind's size (gc/amd64), whatever its name
			for _, ks := range [][2]int{{1, 1}, {2, 8}, {3, 1}, {4, 2}, {5, 4}, {6, 8}, {7, 8}, {8, 1}, {9, 2}, {10, 4}, {11, 8}, {12, 8}, {13, 4}, {14, 8}, {15, 8}, {16, 16}, {24, 16}, {26, 8}} {
				name := fmt.Sprintf("lit_E_uint_%d", ks[0])
				if used[name] {
					facts = append(facts, fmt.Sprintf("(forall ((r!k Int)) (! (=> (= (rtype_kind r!k) %s) (= (rtype_size r!k) %d)) :pattern ((rtype_kind r!k))))", name, ks[1]))
				}
			}
		}
		if used["rtype_kind"] {
			for _, id := range ids {
				if b, ok := x.rtypeUsed[id].Underlying().(*types.Basic); ok {
					if k, ok := reflectKind[b.Kind()]; ok {
						name := fmt.Sprintf("lit_E_uint_%d", k)
						if !used[name] {
							extraDecl = append(extraDecl, fmt.Sprintf("(declare-fun %s () E_uint)", name))
							used[name] = true
						}
						facts = append(facts, fmt.Sprintf("(= (rtype_kind %d) %s)", id, name))
					}
				}
			}
		}
	}
	var sb strings.Builder
	sorts := map[string]bool{}
	_ = extraDecl
	var declText strings.Builder
	for _, i := range declIdx {
		declText.WriteString(x.decls.decl[x.decls.order[i]])
		declText.WriteByte('\n')
	}
	for _, s := range sortRe.FindAllString(body, -1) {
		sorts[s] = true
	}
	for _, s := range sortRe.FindAllString(declText.String(), -1) {
		sorts[s] = true
	}
	var sl []string
	for s := range sorts {
		sl = append(sl, s)
	}
	sort.Strings(sl)
	for _, s := range sl {
		fmt.Fprintf(&sb, "(declare-sort %s 0)\n", s)
	}
	if used["goquo"] || used["gorem"] {
		sb.WriteString(prelude)
	}
	if used["idx"] {
		sb.WriteString(idxAxiom)
	}
	if used["conv_E_uintptr_Int"] && used["conv_Int_E_uintptr"] {
		facts = append(facts, "(forall ((c!s Int)) (= (conv_E_uintptr_Int (conv_Int_E_uintptr c!s)) c!s))")
	}
	sb.WriteString(declText.String())
	// literal constants of one abstract sort denote pairwise different values
	litsBySort := map[string][]string{}
	for t := range used {
		if strings.HasPrefix(t, "lit_E_") {
			rest := t[len("lit_"):]
			if i := strings.Index(rest[2:], "_"); i >= 0 {
				so := rest[:i+2]
				litsBySort[so] = append(litsBySort[so], t)
			}
		}
	}
	var lsorts []string
	for so := range litsBySort {
		lsorts = append(lsorts, so)
	}
	sort.Strings(lsorts)
	for _, so := range lsorts {
		ls := litsBySort[so]
		if len(ls) > 1 {
			sort.Strings(ls)
			facts = append(facts, "(distinct "+strings.Join(ls, " ")+")")
		}
	}
	for _, d := range extraDecl {
		if !strings.Contains(sb.String(), d) {
			sb.WriteString(d + "\n")
		}
	}
	for _, f := range facts {
		fmt.Fprintf(&sb, "(assert %s)\n", f)
	}
	for _, a := range asserts {
		fmt.Fprintf(&sb, "(assert %s)\n", a)
	}
	fmt.Fprintf(&sb, "(assert (not %s))\n", goal)
	return sb.String()
}

var declRe = regexp.MustCompile(`\((?:declare-fun|declare-sort|define-fun-rec|define-fun) ([^\s()]+)`)

// canonical renames declared symbols by order of appearance so that structurally identical
// queries (e.g. the same kernel template at different element types) share one solver run.
func canonical(q string) string {
	names := map[string]string{}
	for _, m := range declRe.FindAllStringSubmatch(q, -1) {
		if m[1] == "goquo" || m[1] == "gorem" || m[1] == "idx" {
			continue
		}
		if _, ok := names[m[1]]; !ok {
			names[m[1]] = fmt.Sprintf("c%d", len(names))
		}
	}
	var sb strings.Builder
	sb.Grow(len(q))
	i := 0
	for i < len(q) {
		c := q[i]
		if c == ' ' || c == '(' || c == ')' || c == '\n' || c == '\t' {
			sb.WriteByte(c)
			i++
			continue
		}
		j := i
		for j < len(q) && q[j] != ' ' && q[j] != '(' && q[j] != ')' && q[j] != '\n' && q[j] != '\t' {
			j++
		}
		t := q[i:j]
		if n, ok := names[t]; ok {
			sb.WriteString(n)
		} else {
			sb.WriteString(t)
		}
		i = j
	}
	return sb.String()
}

type solverResult struct {
	Result string
	Solver string
	Time   float64
	Output string
}

type Solvers struct {
	dir           string
	timeout       time.Duration
	mu            sync.Mutex
	cache         map[string]*cacheEntry
	n             int
	Stats         map[string]*solverStat
	all           bool // thorough: run every solver and compare
	Disagree      []string
	Unique, Total int
}

type cacheEntry struct {
	once sync.Once
	res  solverResult
}

type solverStat struct {
	Queries int     `json:"queries"`
	Decided int     `json:"decided"`
	Seconds float64 `json:"seconds"`
}

func NewSolvers(timeout time.Duration, all bool) *Solvers {
	dir, err := os.MkdirTemp("", "govc-")
	if err != nil {
		panic(err)
	}
	return &Solvers{dir: dir, timeout: timeout, cache: map[string]*cacheEntry{}, Stats: map[string]*solverStat{}, all: all}
}

func (s *Solvers) Close() { os.RemoveAll(s.dir) }

var solverCmds = []struct {
	name string
	args func(file string, secs int) []string
}{
	{"z3-new", func(f string, t int) []string { return []string{"z3-new", fmt.Sprintf("-T:%d", t), f} }},
	{"cvc5", func(f string, t int) []string {
		return []string{"cvc5", fmt.Sprintf("--tlimit=%d", t*1000), "--produce-models", f}
	}},
	{"z3", func(f string, t int) []string { return []string{"z3", fmt.Sprintf("-T:%d", t), f} }},
}

func (s *Solvers) runOne(idx int, file string) solverResult {
	sc := solverCmds[idx]
	secs := int(s.timeout.Seconds())
	if secs < 1 {
		secs = 1
	}
	args := sc.args(file, secs)
	var out []byte
	var el float64
	if theHelper != nil {
		o, secs := theHelper.run(args, s.timeout+2*time.Second)
		out, el = []byte(o), secs
	} else {
		ctx, cancel := context.WithTimeout(context.Background(), s.timeout+2*time.Second)
		t0 := time.Now()
		cmd := exec.CommandContext(ctx, args[0], args[1:]...)
		out, _ = cmd.CombinedOutput()
		el = time.Since(t0).Seconds()
		cancel()
	}
	first := strings.TrimSpace(strings.SplitN(string(out), "\n", 2)[0])
	res := "unknown"
	switch first {
	case "sat", "unsat":
		res = first
	}
	if strings.Contains(string(out), "(error ") && !strings.Contains(string(out), "model is not available") {
		res = "unknown" // a malformed query must never count as an answer
	}
	s.mu.Lock()
	st := s.Stats[sc.name]
	if st == nil {
		st = &solverStat{}
		s.Stats[sc.name] = st
	}
	st.Queries++
	st.Seconds += el
	if res != "unknown" {
		st.Decided++
	}
	s.mu.Unlock()
	return solverResult{Result: res, Solver: sc.name, Time: el, Output: string(out)}
}

// Solve decides one query (text without tail). wantModel appends (get-model).
func (s *Solvers) Solve(q string, wantModel bool) solverResult {
	text := "(set-option :produce-models true)\n(set-logic ALL)\n" + q + "(check-sat)\n"
	if wantModel {
		text += "(get-model)\n"
	}
	s.mu.Lock()
	s.n++
	file := filepath.Join(s.dir, fmt.Sprintf("q%d.smt2", s.n))
	s.mu.Unlock()
	if err := os.WriteFile(file, []byte(text), 0o644); err != nil {
		panic(err)
	}
	defer os.Remove(file)
	if s.all && !wantModel {
		var results []solverResult
		for i := range solverCmds {
			results = append(results, s.runOne(i, file))
		}
		var best solverResult
		best.Result = "unknown"
		seen := map[string]string{}
		for _, r := range results {
			best.Time += r.Time
			if r.Result != "unknown" {
				seen[r.Result] = r.Solver
				if best.Result == "unknown" {
					best.Result, best.Solver, best.Output = r.Result, r.Solver, r.Output
				}
			}
		}
		if len(seen) > 1 {
			s.mu.Lock()
			s.Disagree = append(s.Disagree, fmt.Sprintf("sat by %s, unsat by %s", seen["sat"], seen["unsat"]))
			s.mu.Unlock()
			best.Result = "unknown"
			best.Output = "SOLVER DISAGREEMENT"
		}
		return best
	}
	var last solverResult
	total := 0.0
	for i := range solverCmds {
		r := s.runOne(i, file)
		total += r.Time
		last = r
		if r.Result != "unknown" {
			r.Time = total
			return r
		}
	}
	last.Time = total
	last.Result = "unknown"
	return last
}

// SolveCached deduplicates structurally identical queries.
func (s *Solvers) SolveCached(q string) (solverResult, bool) {
	cq := canonical(q)
	h := sha256.Sum256([]byte(cq))
	key := hex.EncodeToString(h[:])
	s.mu.Lock()
	e, hit := s.cache[key]
	if !hit {
		e = &cacheEntry{}
		s.cache[key] = e
	}
	s.mu.Unlock()
	e.once.Do(func() { e.res = s.Solve(q, false) })
	return e.res, hit
}

// SolveBatch decides many queries with few solver processes: unique (canonical) queries are
// grouped, each group runs in one z3 process with (reset) between queries; whatever stays
// undecided is retried one by one on the fallback solvers. Process creation is the bottleneck
// in this sandbox (~20 ms each, serialised), hence the batching.
func (s *Solvers) SolveBatch(queries []string) []solverResult {
	first := int(s.timeout.Seconds())
	if first > 3 {
		first = 3
	}
	return s.solveBatch(queries, first, true)
}

// SolveProbes is SolveBatch for vacuity probes: short timeout, no fallback ("unknown" is as good as "sat").
func (s *Solvers) SolveProbes(queries []string) []solverResult {
	return s.solveBatch(queries, 2, false)
}

func (s *Solvers) solveBatch(queries []string, secs int, fallback bool) []solverResult {
	type uq struct {
		text string
		send string // text sent to the batch solver when it differs from text (abstraction)
		rec  bool
		idxs []int
		res  solverResult
	}
	byKey := map[string]*uq{}
	var uniq []*uq
	for i, q := range queries {
		cq := canonical(q)
		h := sha256.Sum256([]byte(cq))
		key := hex.EncodeToString(h[:])
		s.mu.Lock()
		ce, hit := s.cache[key]
		s.mu.Unlock()
		if hit {
			u := &uq{text: q, idxs: []int{i}, res: ce.res}
			_ = u
		}
		u := byKey[key]
		if u == nil {
			u = &uq{text: q}
			byKey[key] = u
			uniq = append(uniq, u)
		}
		u.idxs = append(u.idxs, i)
	}
	s.Unique += len(uniq)
	s.Total += len(queries)
	const batchSize = 24
	var wg sync.WaitGroup
	sem := make(chan struct{}, 16)
	var batches [][]*uq
	// queries with recursive spec functions go to cvc5 first (it unfolds define-fun-rec over
	// uninterpreted sorts at once where z3 runs into its timeout); the rest is batched on z3
	var z3q []*uq
	for _, u := range uniq {
		if strings.Contains(u.text, "(define-fun-rec ") {
			u.res = solverResult{Result: "unknown", Solver: "-"}
			if fallback {
				// first try with the recursive spec functions left uninterpreted: every model of the real
				// query is a model of that one, so "unsat" carries over (most obligations do not need the
				// definitions); anything else goes on to the solvers with the definitions
				if abs, ok := abstractRec(u.text); ok {
					u.send = abs
					u.rec = true
					z3q = append(z3q, u)
				}
			}
			if !fallback {
				// vacuity probe: one short cvc5 run, "unknown" is acceptable
				wg.Add(1)
				go func(u *uq) {
					defer wg.Done()
					sem <- struct{}{}
					defer func() { <-sem }()
					s.mu.Lock()
					s.n++
					file := filepath.Join(s.dir, fmt.Sprintf("p%d.smt2", s.n))
					s.mu.Unlock()
					os.WriteFile(file, []byte("(set-logic ALL)\n"+u.text+"(check-sat)\n"), 0o644)
					defer os.Remove(file)
					old := s.timeout
					_ = old
					out := s.spawn([]string{"cvc5", "--tlimit=2000", file}, 4*time.Second)
					first := strings.TrimSpace(strings.SplitN(out, "\n", 2)[0])
					if first == "sat" || first == "unsat" {
						u.res = solverResult{Result: first, Solver: "cvc5"}
					}
				}(u)
			}
			continue
		}
		z3q = append(z3q, u)
	}
	for i := 0; i < len(z3q); i += batchSize {
		j := i + batchSize
		if j > len(z3q) {
			j = len(z3q)
		}
		batches = append(batches, z3q[i:j])
	}
	for _, b := range batches {
		wg.Add(1)
		go func(b []*uq) {
			defer wg.Done()
			sem <- struct{}{}
			defer func() { <-sem }()
			var sb strings.Builder
			for k, u := range b {
				txt := u.text
				if u.send != "" {
					txt = u.send
				}
				fmt.Fprintf(&sb, "(reset)\n(echo \"==S%d==\")\n(set-option :timeout %d)\n(set-logic ALL)\n%s(echo \"==Q%d==\")\n(check-sat)\n", k, secs*1000, txt, k)
			}
			s.mu.Lock()
			s.n++
			file := filepath.Join(s.dir, fmt.Sprintf("b%d.smt2", s.n))
			s.mu.Unlock()
			os.WriteFile(file, []byte(sb.String()), 0o644)
			defer os.Remove(file)
			t0 := time.Now()
			out := s.spawn([]string{"z3-new", file}, time.Duration(len(b)*secs+5)*time.Second)
			el := time.Since(t0).Seconds()
			got := map[int]string{}
			for _, seg := range strings.Split(out, "==S")[1:] {
				var k int
				i := strings.Index(seg, "==")
				if i < 0 {
					continue
				}
				fmt.Sscanf(seg[:i], "%d", &k)
				body := seg[i+2:]
				j := strings.Index(body, "==Q")
				if j < 0 {
					got[k] = "error: no answer: " + strings.TrimSpace(body)
					continue
				}
				pre, post := body[:j], body[j:]
				if e := strings.Index(post, "=="); e >= 0 {
					post = post[e+2:]
				}
				if e := strings.Index(post, "=="); e >= 0 {
					post = post[e+2:]
				}
				first := strings.TrimSpace(strings.SplitN(strings.TrimSpace(post), "\n", 2)[0])
				if strings.Contains(pre, "(error ") {
					first = "error: " + strings.TrimSpace(pre)
				}
				got[k] = first
			}
			s.mu.Lock()
			st := s.Stats["z3-new"]
			if st == nil {
				st = &solverStat{}
				s.Stats["z3-new"] = st
			}
			st.Queries += len(b)
			st.Seconds += el
			s.mu.Unlock()
			for k, u := range b {
				r := got[k]
				if u.rec && r != "unsat" {
					u.res = solverResult{Result: "unknown", Solver: "z3-new(uf-rec)", Time: el / float64(len(b)), Output: r}
					continue
				}
				if r == "sat" || r == "unsat" {
					u.res = solverResult{Result: r, Solver: "z3-new", Time: el / float64(len(b))}
					s.mu.Lock()
					st.Decided++
					s.mu.Unlock()
				} else {
					u.res = solverResult{Result: "unknown", Solver: "z3-new", Time: el / float64(len(b)), Output: r}
				}
			}
		}(b)
	}
	wg.Wait()
	// fallback for the undecided ones
	for _, u := range uniq {
		if u.res.Result != "unknown" || !fallback {
			continue
		}
		wg.Add(1)
		go func(u *uq) {
			defer wg.Done()
			sem <- struct{}{}
			defer func() { <-sem }()
			text := "(set-option :produce-models true)\n(set-logic ALL)\n" + u.text + "(check-sat)\n"
			s.mu.Lock()
			s.n++
			file := filepath.Join(s.dir, fmt.Sprintf("q%d.smt2", s.n))
			s.mu.Unlock()
			os.WriteFile(file, []byte(text), 0o644)
			defer os.Remove(file)
			// product/division abstraction: congruence-only goals become linear
			if aq, ok := abstractNonlinear(u.text); ok {
				afile := file + ".uf.smt2"
				os.WriteFile(afile, []byte("(set-logic ALL)\n"+aq+"(check-sat)\n"), 0o644)
				r := s.runOne(0, afile)
				os.Remove(afile)
				if r.Result == "unsat" {
					r.Solver = "z3-new(uf-products)"
					r.Time += u.res.Time
					u.res = r
					return
				}
				u.res.Time += r.Time
			}
			for _, idx := range []int{1, 0, 2} {
				r := s.runOne(idx, file)
				if r.Result != "unknown" {
					r.Time += u.res.Time
					u.res = r
					return
				}
				u.res.Time += r.Time
				u.res.Output += "\n" + r.Solver + ": " + strings.TrimSpace(r.Output)
			}
		}(u)
	}
	wg.Wait()
	out := make([]solverResult, len(queries))
	for _, u := range uniq {
		for _, i := range u.idxs {
			out[i] = u.res
		}
	}
	return out
}

func (s *Solvers) spawn(args []string, timeout time.Duration) string {
	if theHelper != nil {
		o, _ := theHelper.run(args, timeout)
		return o
	}
	ctx, cancel := context.WithTimeout(context.Background(), timeout)
	defer cancel()
	out, _ := exec.CommandContext(ctx, args[0], args[1:]...).CombinedOutput()
	return string(out)
}

// reflect.Kind values of the basic kinds
var reflectKind = map[types.BasicKind]int{
	types.Bool: 1, types.Int: 2, types.Int8: 3, types.Int16: 4, types.Int32: 5, types.Int64: 6,
	types.Uint: 7, types.Uint8: 8, types.Uint16: 9, types.Uint32: 10, types.Uint64: 11, types.Uintptr: 12,
	types.Float32: 13, types.Float64: 14, types.Complex64: 15, types.Complex128: 16, types.String: 24, types.UnsafePointer: 26,
}

var havocSymRe = regexp.MustCompile(`[^\s()]+@h[0-9]+_[0-9]+`)

// relevantHyps drops hypotheses that only constrain havoc-fresh heap constants (X@h<event>_<k>)
// which neither the goal nor any kept hypothesis mentions: they are frame facts about memory the
// obligation does not talk about. Every other hypothesis is kept.
func relevantHyps(hyps []Term, goal Term) []Term {
	type hinfo struct {
		syms []string
	}
	infos := make([]hinfo, len(hyps))
	any := false
	for i, h := range hyps {
		if strings.Contains(h.S, "@h") {
			infos[i].syms = havocSymRe.FindAllString(h.S, -1)
			if len(infos[i].syms) > 0 {
				any = true
			}
		}
	}
	if !any {
		return hyps
	}
	reach := map[string]bool{}
	for _, s := range havocSymRe.FindAllString(goal.S, -1) {
		reach[s] = true
	}
	keep := make([]bool, len(hyps))
	for i := range hyps {
		// only the frame axioms emitted by havoc (forall j!h ...) are candidates for dropping
		if len(infos[i].syms) == 0 || !strings.HasPrefix(hyps[i].S, "(forall ((j!h Int))") {
			keep[i] = true
			for _, s := range infos[i].syms {
				reach[s] = true
			}
		}
	}
	// hypotheses without havoc symbols never introduce new ones; those with propagate reachability
	for changed := true; changed; {
		changed = false
		for i := range hyps {
			if keep[i] || len(infos[i].syms) == 0 {
				continue
			}
			hit := false
			for _, s := range infos[i].syms {
				if reach[s] {
					hit = true
					break
				}
			}
			if hit {
				keep[i] = true
				changed = true
				for _, s := range infos[i].syms {
					reach[s] = true
				}
			}
		}
	}
	out := make([]Term, 0, len(hyps))
	for i, h := range hyps {
		if keep[i] {
			out = append(out, h)
		}
	}
	return out
}

// abstractRec replaces every (define-fun-rec f ((x S) ...) R body) by (declare-fun f (S ...) R).
func abstractRec(q string) (string, bool) {
	const kw = "(define-fun-rec "
	var sb strings.Builder
	changed := false
	for {
		i := strings.Index(q, kw)
		if i < 0 {
			sb.WriteString(q)
			break
		}
		sb.WriteString(q[:i])
		end := sexprEnd(q, i)
		def := q[i:end]
		// name
		rest := def[len(kw):]
		sp := strings.IndexAny(rest, " \n")
		if sp < 0 {
			return "", false
		}
		name := rest[:sp]
		rest = strings.TrimLeft(rest[sp:], " \n")
		if !strings.HasPrefix(rest, "(") {
			return "", false
		}
		pe := sexprEnd(rest, 0)
		params := rest[1 : pe-1]
		var sorts []string
		for j := 0; j < len(params); {
			for j < len(params) && (params[j] == ' ' || params[j] == '\n') {
				j++
			}
			if j >= len(params) {
				break
			}
			e := sexprEnd(params, j)
			p := params[j+1 : e-1] // "x Sort"
			k := strings.IndexAny(p, " \n")
			if k < 0 {
				return "", false
			}
			sorts = append(sorts, strings.TrimSpace(p[k:]))
			j = e
		}
		rest = strings.TrimLeft(rest[pe:], " \n")
		re := sexprEnd(rest, 0)
		ret := rest[:re]
		sb.WriteString("(declare-fun " + name + " (" + strings.Join(sorts, " ") + ") " + ret + ")")
		changed = true
		q = q[end:]
	}
	return sb.String(), changed
}
