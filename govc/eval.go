package main

import (
	"fmt"
	"go/token"
	"go/types"
	"os"
	"runtime/debug"
	"strings"
)

// Env evaluates contract expressions against symbolic states.
type Env struct {
	x        *Exec
	st       *State
	old      *State
	head     *State // loop-head snapshot (for hd())
	names    map[string]Value
	oldNames map[string]Value
	assuming bool
	defMode  *specDef // non-nil while building a define-fun-rec body
	depth    int
}

func (e *Env) fail(format string, args ...interface{}) {
	if os.Getenv("GOVC_DEBUG") != "" {
		debug.PrintStack()
	}
	panic(fmt.Errorf("contract evaluation (%s): %s", shortKey(e.x.key), fmt.Sprintf(format, args...)))
}

func (e *Env) with(names map[string]Value) *Env {
	n := *e
	n.names = names
	return &n
}

func (e *Env) bind(name string, v Value) *Env {
	m := make(map[string]Value, len(e.names)+1)
	for k, x := range e.names {
		m[k] = x
	}
	m[name] = v
	return e.with(m)
}

func (e *Env) evalBool(ex *Expr) Term {
	v := e.eval(ex)
	s, ok := v.(Scalar)
	if !ok || s.T.Sort != SBool {
		e.fail("expected boolean: %s", ex)
	}
	return s.T
}

func (e *Env) evalInt(ex *Expr) Term {
	v := e.eval(ex)
	s, ok := v.(Scalar)
	if !ok || s.T.Sort != SInt {
		e.fail("expected int: %s (got %v)", ex, v)
	}
	return s.T
}

var basicByName = map[string]types.Type{}

func init() {
	for _, b := range types.Typ {
		if b != nil && b.Name() != "" {
			basicByName[b.Name()] = b
		}
	}
	basicByName["byte"] = types.Typ[types.Uint8]
	basicByName["unsafe.Pointer"] = types.Typ[types.UnsafePointer]
}

func (e *Env) eval(ex *Expr) Value {
	switch ex.Op {
	case "int":
		return Scalar{IntLit(ex.Int)}
	case "bool":
		return Scalar{BoolLit(ex.Name == "true")}
	case "nil":
		return Scalar{IntLit(0)}
	case "str":
		return Scalar{e.x.strConst(ex.Name)}
	case "id":
		if v, ok := e.names[ex.Name]; ok {
			return v
		}
		e.x.evalState = e.st
		if v, ok := e.x.globalConst(ex.Name); ok {
			return v
		}
		e.fail("unknown identifier %q", ex.Name)
	case "sel":
		// pkg-qualified constant?
		base := e.eval(ex.Args[0])
		return e.field(base, ex.Name, ex)
	case "index":
		base := e.eval(ex.Args[0])
		idx := e.evalInt(ex.Args[1])
		sv, ok := base.(SliceV)
		if !ok {
			e.fail("index of non-slice in %s", ex)
		}
		return e.x.loadPtr(e.st, PtrV{Kind: PElem, Arr: sv.Arr, Idx: Idx(sv.Off, idx), Root: sv.Elem})
	case "slice":
		sv, ok := e.eval(ex.Args[0]).(SliceV)
		if !ok {
			e.fail("slice of non-slice in %s", ex)
		}
		lo, hi := IntLit(0), sv.Len
		if ex.Args[1] != nil {
			lo = e.evalInt(ex.Args[1])
		}
		if ex.Args[2] != nil {
			hi = e.evalInt(ex.Args[2])
		}
		return SliceV{Arr: sv.Arr, Off: Add(sv.Off, lo), Len: Sub(hi, lo), Cap: Sub(sv.Cap, lo), Elem: sv.Elem}
	case "un":
		a := e.eval(ex.Args[0]).(Scalar).T
		if ex.Name == "!" {
			return Scalar{Not(a)}
		}
		if a.Sort == SInt {
			return Scalar{Neg(a)}
		}
		return Scalar{e.x.eop("neg", a.Sort, a.Sort, a)}
	case "bin":
		return e.binary(ex)
	case "ite":
		c := e.evalBool(ex.Args[0])
		if c.IsTrue() {
			return e.eval(ex.Args[1])
		}
		if c.IsFalse() {
			return e.eval(ex.Args[2])
		}
		a, b := e.eval(ex.Args[1]), e.eval(ex.Args[2])
		return iteValue(c, a, b)
	case "forall", "exists":
		return Scalar{e.quant(ex)}
	case "call":
		return e.call(ex)
	}
	e.fail("cannot evaluate %s", ex)
	return nil
}

func iteValue(c Term, a, b Value) Value {
	la, lb := flatten(a), flatten(b)
	if len(la) != len(lb) {
		panic("ite over values of different shape")
	}
	out := make([]Term, len(la))
	for i := range la {
		out[i] = Ite(c, la[i], lb[i])
	}
	return rebuild(a, out)
}

// rebuild makes a value shaped like proto from leaves.
func rebuild(proto Value, ls []Term) Value {
	switch p := proto.(type) {
	case Scalar:
		return Scalar{ls[0]}
	case SliceV:
		return SliceV{ls[0], ls[1], ls[2], ls[3], p.Elem}
	case IfaceV:
		return IfaceV{ls[0], ls[1]}
	case PtrV:
		q := p
		q.Ref = ls[0]
		return q
	case FuncV:
		return FuncV{T: ls[0], Sig: p.Sig}
	case MapV:
		return MapV{Ref: ls[0], T: p.T}
	case StructV:
		out := StructV{T: p.T}
		for _, f := range p.Fields {
			n := len(flatten(f))
			out.Fields = append(out.Fields, rebuild(f, ls[:n]))
			ls = ls[n:]
		}
		return out
	case TupleV:
		out := TupleV{}
		for _, f := range p.Elems {
			n := len(flatten(f))
			out.Elems = append(out.Elems, rebuild(f, ls[:n]))
			ls = ls[n:]
		}
		return out
	}
	panic(fmt.Sprintf("rebuild %T", proto))
}

func (e *Env) field(base Value, name string, ex *Expr) Value {
	switch b := base.(type) {
	case PtrV:
		t := typeAtPath(b.Root, b.Path)
		st, ok := t.Underlying().(*types.Struct)
		if !ok {
			e.fail("field %s of non-struct pointer in %s", name, ex)
		}
		path, ft := findField(st, name)
		if path == nil {
			e.fail("no field %s in %s (%s)", name, t, ex)
		}
		np := b
		cur := t
		for i, fi := range path {
			np.Path = append(append([]int(nil), np.Path...), fi)
			cur = cur.Underlying().(*types.Struct).Field(fi).Type()
			if pt, ok := cur.Underlying().(*types.Pointer); ok && i < len(path)-1 {
				// embedded pointer: load and continue
				v := e.x.loadPtr(e.st, np).(PtrV)
				np = v
				cur = pt.Elem()
			}
		}
		_ = ft
		if _, isStruct := cur.Underlying().(*types.Struct); isStruct {
			np.lval = true
			return np // stay a pointer to the embedded struct (lvalue)
		}
		return e.x.loadPtr(e.st, np)
	case StructV:
		path, _ := findField(b.T, name)
		if path == nil {
			e.fail("no field %s in struct value (%s)", name, ex)
		}
		var v Value = b
		for _, fi := range path {
			switch vv := v.(type) {
			case StructV:
				v = vv.Fields[fi]
			case PtrV:
				np := vv
				np.Path = append(append([]int(nil), np.Path...), fi)
				v = e.x.loadPtr(e.st, np)
			}
		}
		return v
	case SliceV:
		switch name {
		case "arr":
			return Scalar{b.Arr}
		case "off":
			return Scalar{b.Off}
		}
	case IfaceV:
		switch name {
		case "tag":
			return Scalar{b.Tag}
		case "val":
			return Scalar{b.Val}
		}
	}
	e.fail("cannot select .%s from %T in %s", name, base, ex)
	return nil
}

// findField resolves a (possibly promoted) field name to an index path.
func findField(st *types.Struct, name string) ([]int, types.Type) {
	for i := 0; i < st.NumFields(); i++ {
		if st.Field(i).Name() == name {
			return []int{i}, st.Field(i).Type()
		}
	}
	for i := 0; i < st.NumFields(); i++ {
		f := st.Field(i)
		if !f.Embedded() {
			continue
		}
		ft := f.Type()
		if p, ok := ft.Underlying().(*types.Pointer); ok {
			ft = p.Elem()
		}
		if inner, ok := ft.Underlying().(*types.Struct); ok {
			if p, t := findField(inner, name); p != nil {
				return append([]int{i}, p...), t
			}
		}
	}
	return nil, nil
}

var binTok = map[string]token.Token{
	"+": token.ADD, "-": token.SUB, "*": token.MUL, "/": token.QUO, "%": token.REM,
	"<": token.LSS, "<=": token.LEQ, ">": token.GTR, ">=": token.GEQ, "==": token.EQL, "!=": token.NEQ,
	"&": token.AND, "|": token.OR, "^": token.XOR, "&^": token.AND_NOT, "<<": token.SHL, ">>": token.SHR,
}

func (e *Env) binary(ex *Expr) Value {
	switch ex.Name {
	case "==>":
		a := e.evalBool(ex.Args[0])
		if a.IsFalse() {
			return Scalar{TTrue}
		}
		return Scalar{Implies(a, e.evalBool(ex.Args[1]))}
	case "<==>":
		return Scalar{Eq(e.evalBool(ex.Args[0]), e.evalBool(ex.Args[1]))}
	case "&&":
		a := e.evalBool(ex.Args[0])
		if a.IsFalse() {
			return Scalar{TFalse}
		}
		return Scalar{And(a, e.evalBool(ex.Args[1]))}
	case "||":
		a := e.evalBool(ex.Args[0])
		if a.IsTrue() {
			return Scalar{TTrue}
		}
		return Scalar{Or(a, e.evalBool(ex.Args[1]))}
	}
	a, b := e.eval(ex.Args[0]), e.eval(ex.Args[1])
	if ex.Name == "==" || ex.Name == "!=" {
		eq := e.valueEq(a, b, ex)
		if ex.Name == "!=" {
			eq = Not(eq)
		}
		return Scalar{eq}
	}
	as, ok1 := a.(Scalar)
	bs, ok2 := b.(Scalar)
	if !ok1 || !ok2 {
		e.fail("operator %s on non-scalars in %s", ex.Name, ex)
	}
	if as.T.Sort != bs.T.Sort {
		e.fail("operator %s: sort mismatch %s vs %s in %s", ex.Name, as.T.Sort, bs.T.Sort, ex)
	}
	return Scalar{e.x.binTerm(e.st, binTok[ex.Name], as.T, bs.T, "")}
}

func (e *Env) valueEq(a, b Value, ex *Expr) Term {
	// nil comparisons
	if s, ok := b.(Scalar); ok && s.T.S == "0" {
		switch av := a.(type) {
		case SliceV:
			return Eq(av.Arr, IntLit(0))
		case IfaceV:
			return Eq(av.Tag, IntLit(0))
		case PtrV:
			return Eq(av.Ref, IntLit(0))
		case FuncV:
			return Eq(av.T, IntLit(0))
		}
	}
	// two struct-typed field selections: compare the struct values, not their addresses
	if pa, ok := a.(PtrV); ok && pa.lval {
		switch pb := b.(type) {
		case PtrV:
			if pb.lval {
				a, b = e.x.loadPtr(e.st, pa), e.x.loadPtr(e.st, pb)
			}
		case StructV:
			a = e.x.loadPtr(e.st, pa)
		}
	} else if pb, ok := b.(PtrV); ok && pb.lval {
		if _, isS := a.(StructV); isS {
			b = e.x.loadPtr(e.st, pb)
		}
	}
	as, ok1 := a.(Scalar)
	bs, ok2 := b.(Scalar)
	if ok1 && ok2 {
		if as.T.Sort != bs.T.Sort {
			e.fail("==: sort mismatch %s vs %s in %s", as.T.Sort, bs.T.Sort, ex)
		}
		return Eq(as.T, bs.T) // specification equality is identity, not Go's == (NaN != NaN)
	}
	if pa, ok := a.(PtrV); ok {
		if pb, ok := b.(PtrV); ok && (len(pa.Path) > 0 || len(pb.Path) > 0 || pa.Kind != PHeap || pb.Kind != PHeap) {
			return ptrEq(pa, pb)
		}
	}
	la, lb := flatten(a), flatten(b)
	if len(la) != len(lb) {
		e.fail("== on differently shaped values in %s", ex)
	}
	var cs []Term
	for i := range la {
		cs = append(cs, Eq(la[i], lb[i]))
	}
	return And(cs...)
}

// quant evaluates forall/exists, expanding literal ranges.
func (e *Env) quant(ex *Expr) Term {
	body := ex.Args[0]
	// try bounded expansion for a single variable
	if len(ex.Vars) == 1 {
		v := ex.Vars[0]
		var guard, rest *Expr
		if ex.Op == "forall" && body.Op == "bin" && body.Name == "==>" {
			guard, rest = body.Args[0], body.Args[1]
		} else if ex.Op == "exists" && body.Op == "bin" && body.Name == "&&" {
			guard, rest = leftmostConj(body)
		}
		if guard != nil {
			if lo, hi, ok := e.rangeOf(guard, v); ok {
				l, ok1 := lo.IsLit()
				h, ok2 := hi.IsLit()
				if ok1 && ok2 && h-l <= 64 {
					var parts []Term
					for k := l; k < h; k++ {
						env := e.bind(v, Scalar{IntLit(k)})
						g := env.evalBool(guard)
						r := env.evalBool(rest)
						if ex.Op == "forall" {
							parts = append(parts, Implies(g, r))
						} else {
							parts = append(parts, And(g, r))
						}
					}
					if ex.Op == "forall" {
						return And(parts...)
					}
					return Or(parts...)
				}
			}
		}
	}
	e.x.qcount++
	qcount := e.x.qcount
	env := e
	var vars []Term
	for _, v := range ex.Vars {
		t := Term{fmt.Sprintf("%s!q%d", smtName(v), qcount), SInt}
		vars = append(vars, t)
		env = env.bind(v, Scalar{t})
	}
	b := env.evalBool(body)
	if ex.Op == "forall" {
		return Forall(vars, b)
	}
	return Exists(vars, b)
}

func leftmostConj(b *Expr) (*Expr, *Expr) {
	// (a && b) && c ... : treat everything but the last conjunct as guard
	return b.Args[0], b.Args[1]
}

// rangeOf looks for lo <= v and v < hi among the conjuncts of guard.
func (e *Env) rangeOf(guard *Expr, v string) (lo, hi Term, ok bool) {
	var conj []*Expr
	var walk func(x *Expr)
	walk = func(x *Expr) {
		if x.Op == "bin" && x.Name == "&&" {
			walk(x.Args[0])
			walk(x.Args[1])
			return
		}
		conj = append(conj, x)
	}
	walk(guard)
	haveLo, haveHi := false, false
	for _, c := range conj {
		if c.Op != "bin" {
			continue
		}
		l, r := c.Args[0], c.Args[1]
		isV := func(x *Expr) bool { return x.Op == "id" && x.Name == v }
		switch {
		case c.Name == "<=" && isV(r) && !mentions(l, v):
			lo, haveLo = e.evalInt(l), true
		case c.Name == "<" && isV(r) && !mentions(l, v):
			lo, haveLo = Add(e.evalInt(l), IntLit(1)), true
		case c.Name == "<" && isV(l) && !mentions(r, v):
			if h := e.evalInt(r); !haveHi || isLitTerm(h) {
				hi, haveHi = h, true
			}
		case c.Name == "<=" && isV(l) && !mentions(r, v):
			if h := Add(e.evalInt(r), IntLit(1)); !haveHi || isLitTerm(h) {
				hi, haveHi = h, true
			}
		case c.Name == ">=" && isV(l) && !mentions(r, v):
			lo, haveLo = e.evalInt(r), true
		}
	}
	return lo, hi, haveLo && haveHi
}

func mentions(x *Expr, v string) bool {
	if x == nil {
		return false
	}
	if x.Op == "id" && x.Name == v {
		return true
	}
	for _, a := range x.Args {
		if mentions(a, v) {
			return true
		}
	}
	return false
}

// ---------- calls ----------

func (e *Env) call(ex *Expr) Value {
	callee := ex.Args[0]
	args := ex.Args[1:]
	if callee.Op == "sel" && callee.Args[0].Op == "id" {
		pkg := callee.Args[0].Name
		if _, bound := e.names[pkg]; !bound {
			// external pure function pkg.Name(args) or pure interface method x.M() below
			return e.externCall(pkg+"."+callee.Name, args, ex)
		}
	}
	if callee.Op == "sel" {
		// pure method on a value: recv.M(args)
		recv := e.eval(callee.Args[0])
		return e.methodCall(recv, callee.Name, args, ex)
	}
	if callee.Op != "id" {
		e.fail("cannot call %s", callee)
	}
	name := callee.Name
	if bt, ok := basicByName[name]; ok && len(args) == 1 {
		v := e.eval(args[0])
		s := v.(Scalar)
		ts := sortOf(bt)
		if n, isLit := s.T.IsLit(); isLit && strings.HasPrefix(ts, "E_") {
			return Scalar{e.x.decls.Const("lit_"+ts+"_"+sanitize(fmt.Sprint(n)), ts)}
		}
		return e.x.convert(e.st, v, nil, bt, "")
	}
	if len(args) == 1 {
		// conversion to a named basic type of the package, e.g. DataOrder(0)
		pkgPath := pkgTensor
		if e.x.fn != nil && e.x.fn.Pkg != nil {
			pkgPath = e.x.fn.Pkg.Pkg.Path()
		}
		if nt := e.x.P.lookupType(pkgPath + "." + name); nt != nil {
			if _, isBasic := nt.Underlying().(*types.Basic); isBasic {
				v := e.eval(args[0]).(Scalar)
				ts := sortOf(nt)
				if n, isLit := v.T.IsLit(); isLit && strings.HasPrefix(ts, "(_ BitVec ") {
					var w int
					fmt.Sscanf(ts, "(_ BitVec %d)", &w)
					return Scalar{Term{fmt.Sprintf("(_ bv%d %d)", n, w), ts}}
				}
				return e.x.convert(e.st, v, nil, nt, "")
			}
		}
	}
	switch name {
	case "len":
		switch v := e.eval(args[0]).(type) {
		case SliceV:
			if _, lit := v.Len.IsLit(); !lit && e.st != nil && e.st.formal == nil {
				// a length fixed by the path condition (e.g. after an arity check) is used as a literal,
				// so that recursive specification functions over it unfold
				if k, ok := knownLits(e.st)[v.Len.S]; ok {
					return Scalar{Term{k, SInt}}
				}
			}
			return Scalar{v.Len}
		case Scalar:
			if v.T.Sort == "Str" {
				e.x.decls.Fun("strlen", []string{"Str"}, SInt)
				return Scalar{App(SInt, "strlen", v.T)}
			}
		}
		e.fail("len of non-slice in %s", ex)
	case "cap":
		return Scalar{e.eval(args[0]).(SliceV).Cap}
	case "old":
		if e.old == nil {
			e.fail("old() not available here: %s", ex)
		}
		n := *e
		n.st = e.old
		if e.oldNames != nil {
			m := map[string]Value{}
			for k, v := range e.names {
				m[k] = v
			}
			for k, v := range e.oldNames {
				m[k] = v
			}
			n.names = m
		}
		n.assuming = false
		ov := n.eval(args[0])
		if pv, ok := ov.(PtrV); ok && pv.lval {
			// a struct-typed field selection denotes the struct value of the old state
			return e.x.loadPtr(n.st, pv)
		}
		return ov
	case "hd":
		if e.head == nil {
			e.fail("hd() only in loop step clauses: %s", ex)
		}
		// heap and ghost state of the loop head; names keep their current values
		n := *e
		n.st = e.head
		return n.eval(args[0])
	case "ite":
		return e.eval(&Expr{Op: "ite", Args: args})
	case "same":
		a, b := e.eval(args[0]).(SliceV), e.eval(args[1]).(SliceV)
		return Scalar{And(Eq(a.Arr, b.Arr), Eq(a.Off, b.Off))}
	case "disjoint":
		a, b := e.eval(args[0]).(SliceV), e.eval(args[1]).(SliceV)
		return Scalar{Or(Ne(a.Arr, b.Arr), Le(Add(a.Off, a.Len), b.Off), Le(Add(b.Off, b.Len), a.Off))}
	case "sameobj":
		a, b := flatten(e.eval(args[0])), flatten(e.eval(args[1]))
		return Scalar{Eq(a[0], b[0])}
	case "fresh":
		v := e.eval(args[0])
		if e.old == nil {
			e.fail("fresh() needs a pre-state")
		}
		switch u := v.(type) {
		case SliceV:
			if e.assuming {
				e.st.assign = append(e.st.assign, Region{IsElem: true, Arr: u.Arr, ElemKey: typeKey(u.Elem), Desc: "fresh result"})
			}
			return Scalar{Ge(u.Arr, e.old.alloc)}
		case PtrV:
			if e.assuming {
				e.st.assign = append(e.st.assign, Region{Ref: u.Ref, RootKey: typeKey(u.Root), Desc: "fresh result"})
			}
			return Scalar{Ge(u.Ref, e.old.alloc)}
		case IfaceV:
			return Scalar{Ge(u.Val, e.old.alloc)}
		}
		e.fail("fresh of %T", v)
	case "isnil":
		return Scalar{e.valueEq(e.eval(args[0]), Scalar{IntLit(0)}, ex)}
	case "typeis":
		iv, ok := e.eval(args[0]).(IfaceV)
		if !ok {
			e.fail("typeis on non-interface")
		}
		t := e.x.P.lookupType(args[1].Name)
		if t == nil {
			e.fail("typeis: unknown type %q", args[1].Name)
		}
		return Scalar{Eq(iv.Tag, IntLit(int64(e.x.P.typeTag(t))))}
	case "implements":
		iv := e.eval(args[0]).(IfaceV)
		t := e.x.P.lookupType(args[1].Name)
		if t == nil {
			e.fail("implements: unknown type %q", args[1].Name)
		}
		return Scalar{And(Ne(iv.Tag, IntLit(0)), e.x.implFact(t, iv.Tag))}
	case "rtype":
		// rtype("int8"): the reflect.Type value denoting a basic type
		bt, ok := basicByName[args[0].Name]
		if !ok {
			e.fail("rtype: unknown basic type %q", args[0].Name)
		}
		return e.x.rtypeValue(e.st, bt)
	case "unchanged":
		sv := e.eval(args[0]).(SliceV)
		q := &Expr{Op: "forall", Vars: []string{"k!u"}, Args: []*Expr{{Op: "bin", Name: "==>", Args: []*Expr{
			{Op: "bin", Name: "&&", Args: []*Expr{{Op: "bin", Name: "<=", Args: []*Expr{{Op: "int", Int: 0}, {Op: "id", Name: "k!u"}}},
				{Op: "bin", Name: "<", Args: []*Expr{{Op: "id", Name: "k!u"}, {Op: "call", Args: []*Expr{{Op: "id", Name: "len"}, args[0]}}}}}},
			{Op: "bin", Name: "==", Args: []*Expr{{Op: "index", Args: []*Expr{args[0], {Op: "id", Name: "k!u"}}},
				{Op: "call", Args: []*Expr{{Op: "id", Name: "old"}, {Op: "index", Args: []*Expr{args[0], {Op: "id", Name: "k!u"}}}}}}},
		}}}}
		_ = sv
		return Scalar{e.quant(q)}
	case "gh":
		// ghost field: gh("name", ref)
		ref := flattenSpec(e.eval(args[1]))
		key := ref[len(ref)-1]
		m := mapRef{smtName("H!ghost!" + args[0].Name), ArraySort(SInt, SInt)}
		return Scalar{Select(e.x.heapGet(e.st, m), key)}
	case "alloc":
		return Scalar{e.st.alloc}
	case "min":
		a, b := e.evalInt(args[0]), e.evalInt(args[1])
		return Scalar{Ite(Le(a, b), a, b)}
	case "max":
		a, b := e.evalInt(args[0]), e.evalInt(args[1])
		return Scalar{Ite(Ge(a, b), a, b)}
	case "abs":
		a := e.evalInt(args[0])
		return Scalar{Ite(Ge(a, IntLit(0)), a, Neg(a))}
	case "lit":
		// lit(T, "1.5") : literal of element type
		bt := basicByName[args[0].Name]
		return Scalar{e.x.decls.Const("lit_"+sortOf(bt)+"_"+sanitize(args[1].Name), sortOf(bt))}
	case "app":
		// app(fn, args...) : application of a symbolic function value
		fv, ok := e.eval(args[0]).(FuncV)
		if !ok {
			e.fail("app of non-function")
		}
		var vs []Value
		for _, a := range args[1:] {
			vs = append(vs, e.eval(a))
		}
		r := e.x.applyFuncValue(e.st, fv, fv.Sig, vs, "")
		return r
	case "goeq", "gone", "golt", "gole", "gogt", "goge":
		a, b := e.eval(args[0]).(Scalar).T, e.eval(args[1]).(Scalar).T
		tk := map[string]token.Token{"goeq": token.EQL, "gone": token.NEQ, "golt": token.LSS, "gole": token.LEQ, "gogt": token.GTR, "goge": token.GEQ}[name]
		return Scalar{e.x.binTerm(e.st, tk, a, b, "")}
	case "fnval":
		// fnval("execution.MinI8"): the function value of a named function
		key := expandKey(args[0].Name)
		fn := e.x.P.funcs[key]
		if fn == nil {
			e.fail("fnval: unknown function %q", args[0].Name)
		}
		return e.x.funcValue(fn)
	case "tview":
		// tview("int8", h): the typed view h.Int8s() of a *storage.Header
		bt, ok := basicByName[args[0].Name]
		if !ok {
			e.fail("tview: unknown basic type %q", args[0].Name)
		}
		raw, ok := e.field(e.eval(args[1]), "Raw", ex).(SliceV)
		if !ok {
			e.fail("tview: argument has no Raw slice")
		}
		v := e.x.typedView(raw, bt)
		return SliceV{Arr: v.Arr, Off: v.Off, Len: v.Len, Cap: v.Len, Elem: bt}
	case "contents":
		// contents(s): the whole backing array of slice s as a value (for summary functions)
		sv, ok := e.eval(args[0]).(SliceV)
		if !ok {
			e.fail("contents of non-slice")
		}
		ms := heapMaps(PElem, sv.Elem, nil)
		if len(ms) != 1 {
			e.fail("contents: element type %s has several leaves", sv.Elem)
		}
		return Scalar{Select(e.x.heapGet(e.st, ms[0]), sv.Arr)}
	case "rkind":
		// rkind(x): reflect.Kind of a reflect.Type value (or of a Dtype, which embeds one)
		v := e.eval(args[0])
		if pv, ok := v.(PtrV); ok {
			v = e.x.loadPtr(e.st, pv)
		}
		if sv, ok := v.(StructV); ok && len(sv.Fields) == 1 {
			v = sv.Fields[0]
		}
		iv, ok := v.(IfaceV)
		if !ok {
			e.fail("rkind of %T", v)
		}
		e.x.decls.Fun("rtype_kind", []string{SInt}, "E_uint")
		return Scalar{App("E_uint", "rtype_kind", iv.Val)}
	case "rsize":
		// rsize(x): reflect.Type.Size() of a reflect.Type value (or of a Dtype), as an int; positive
		v := e.eval(args[0])
		if pv, ok := v.(PtrV); ok {
			v = e.x.loadPtr(e.st, pv)
		}
		if sv, ok := v.(StructV); ok && len(sv.Fields) == 1 {
			v = sv.Fields[0]
		}
		iv, ok := v.(IfaceV)
		if !ok {
			e.fail("rsize of %T", v)
		}
		e.x.decls.Fun("rtype_size", []string{SInt}, SInt)
		sz := App(SInt, "rtype_size", iv.Val)
		if id, ok := iv.Val.IsLit(); ok {
			if t, known := e.x.rtypeUsed[int(id)]; known {
				return Scalar{IntLit(stdSizes.Sizeof(t))}
			}
		}
		e.st.assume(Lt(IntLit(0), sz))
		return Scalar{sz}
	case "kindlit":
		return Scalar{e.x.decls.Const("lit_E_uint_"+fmt.Sprint(args[0].Int), "E_uint")}
	case "unboxslice":
		// unboxslice("float64", x): the []float64 held by interface value x
		bt, ok := basicByName[args[0].Name]
		if !ok {
			e.fail("unboxslice: unknown element type %q", args[0].Name)
		}
		iv, ok := e.eval(args[1]).(IfaceV)
		if !ok {
			e.fail("unboxslice of non-interface")
		}
		return e.x.unbox(e.st, types.NewSlice(bt), iv.Val)
	case "unbox":
		// unbox("int8", x): the dynamic value of interface x read as the given type
		bt, ok := basicByName[args[0].Name]
		if !ok {
			e.fail("unbox: unknown type %q", args[0].Name)
		}
		iv, ok := e.eval(args[1]).(IfaceV)
		if !ok {
			e.fail("unbox of non-interface")
		}
		return e.x.unbox(e.st, bt, iv.Val)
	case "hastype":
		bt, ok := basicByName[args[1].Name]
		if !ok {
			e.fail("hastype: unknown type %q", args[1].Name)
		}
		iv := e.eval(args[0]).(IfaceV)
		return Scalar{Eq(iv.Tag, IntLit(int64(e.x.P.typeTag(bt))))}
	case "asptr":
		// asptr("tensor.Dense", x): the *Dense behind interface value x (its dynamic type is assumed)
		nt := e.x.P.lookupType(args[0].Name)
		if nt == nil {
			e.fail("asptr: unknown type %q", args[0].Name)
		}
		switch v := e.eval(args[1]).(type) {
		case IfaceV:
			return PtrV{Kind: PHeap, Ref: v.Val, Root: nt}
		case PtrV:
			return v
		case Scalar:
			// a bare reference (e.g. the value of an uninterpreted function naming an object)
			if v.T.Sort == SInt {
				return PtrV{Kind: PHeap, Ref: v.T, Root: nt}
			}
		}
		e.fail("asptr of non-interface")
	case "niliface":
		return IfaceV{IntLit(0), IntLit(0)}
	case "fst":
		return e.eval(args[0]).(TupleV).Elems[0]
	case "snd":
		return e.eval(args[0]).(TupleV).Elems[1]
	case "tup":
		n := int(args[1].Int)
		return e.eval(args[0]).(TupleV).Elems[n]
	}
	if f, ok := e.x.P.db.Fns[name]; ok {
		return e.specCall(f, args, ex)
	}
	if strings.HasPrefix(name, "summ_") {
		e.x.P.db.UFuns[name] = "bool"
	}
	if ret, ok := e.x.P.db.UFuns[name]; ok {
		var ats []Term
		var sorts []string
		for _, a := range args {
			v := e.eval(a)
			if iv, isI := v.(IfaceV); isI {
				v = Scalar{iv.Val} // objects behind interfaces are identified by their reference
			}
			for _, l := range flattenSpec(v) {
				ats = append(ats, l)
				sorts = append(sorts, l.Sort)
			}
		}
		rs := SInt
		if ret == "bool" {
			rs = SBool
		} else if ret != "int" {
			// an element type name: the result has that type's sort (abstract element sorts for non-int types)
			bt, ok := basicByName[ret]
			if !ok {
				e.fail("ufun %s: unknown result type %q", name, ret)
			}
			rs = sortOf(bt)
		}
		fn := "u!" + smtName(name)
		if strings.HasPrefix(name, "summ_") {
			// summary predicates are used at several element sorts: one symbol per signature
			var sig []string
			for _, so := range sorts {
				if so != SInt {
					sig = append(sig, smtSortName(so))
				}
			}
			fn += "!" + smtName(strings.Join(sig, "_"))
		}
		e.x.decls.Fun(fn, sorts, rs)
		return Scalar{App(rs, fn, ats...)}
	}
	e.fail("unknown function %q in %s", name, ex)
	return nil
}

// externCall: pure external function (math.Sqrt, cmplx.Pow, vecf64 helpers ...) as an uninterpreted symbol.
func (e *Env) externCall(name string, args []*Expr, ex *Expr) Value {
	var vs []Value
	for _, a := range args {
		vs = append(vs, e.eval(a))
	}
	full := e.x.P.resolveExtern(name)
	r, ok := e.x.pureExtern(e.st, full, vs)
	if !ok {
		e.fail("unknown external function %s in %s", name, ex)
	}
	return r
}

func (e *Env) methodCall(recv Value, method string, args []*Expr, ex *Expr) Value {
	var vs []Value
	vs = append(vs, recv)
	for _, a := range args {
		vs = append(vs, e.eval(a))
	}
	r, ok := e.x.pureMethod(e.st, recv, method, vs)
	if !ok {
		e.fail("no pure method %s for %s", method, ex)
	}
	return r
}

// ---------- spec functions ----------

type specDef struct {
	name     string
	maps     []mapRef
	mapIx    map[string]bool
	building bool
	pass     int

	heapFormals []heapFormal
}

const specInlineDepth = 80

func (e *Env) specCall(f *SpecFn, args []*Expr, ex *Expr) Value {
	if len(args) != len(f.Params) {
		e.fail("spec function %s expects %d arguments", f.Name, len(f.Params))
	}
	vals := make([]Value, len(args))
	for i, a := range args {
		vals[i] = e.eval(a)
	}
	names := map[string]Value{}
	for i, p := range f.Params {
		names[p] = vals[i]
	}
	inline := f.Decr == nil
	if !inline {
		d := e.with(names).eval(f.Decr).(Scalar).T
		if _, lit := d.IsLit(); lit {
			inline = true
		}
	}
	if inline && e.depth < specInlineDepth {
		n := e.with(names)
		n.depth = e.depth + 1
		n.oldNames = nil
		return n.eval(f.Body)
	}
	return e.x.specApply(e, f, vals)
}

func isLitTerm(t Term) bool { _, ok := t.IsLit(); return ok }

// lvalue resolves a selector chain to the heap location of a field (following embedded pointers).
func (e *Env) lvalue(ex *Expr) (PtrV, bool) {
	switch ex.Op {
	case "id", "call":
		if p, ok := e.eval(ex).(PtrV); ok {
			return p, true
		}
	case "sel":
		var base PtrV
		if ex.Args[0].Op == "id" {
			b, ok := e.eval(ex.Args[0]).(PtrV)
			if !ok {
				return PtrV{}, false
			}
			base = b
		} else {
			b, ok := e.lvalue(ex.Args[0])
			if !ok {
				return PtrV{}, false
			}
			base = b
		}
		t := typeAtPath(base.Root, base.Path)
		if pt, ok := t.Underlying().(*types.Pointer); ok {
			base = e.x.loadPtr(e.st, base).(PtrV)
			t = pt.Elem()
		}
		st, ok := t.Underlying().(*types.Struct)
		if !ok {
			return PtrV{}, false
		}
		path, _ := findField(st, ex.Name)
		if path == nil {
			return PtrV{}, false
		}
		np := base
		cur := t
		for i, fi := range path {
			np.Path = append(append([]int(nil), np.Path...), fi)
			cur = cur.Underlying().(*types.Struct).Field(fi).Type()
			if pt, ok := cur.Underlying().(*types.Pointer); ok && i < len(path)-1 {
				np = e.x.loadPtr(e.st, np).(PtrV)
				cur = pt.Elem()
			}
		}
		return np, true
	}
	return PtrV{}, false
}

// ptrEq: equality of structured pointers (same root location and the same field path).
func ptrEq(a, b PtrV) Term {
	if a.Kind == PHeap && b.Kind == PHeap && len(a.Path) != len(b.Path) && !types.Identical(a.Root, b.Root) {
		// a reference to a whole object against a location inside another kind of object: the heap
		// model cannot tell whether the two coincide
		panic(unsupported("comparison of a plain pointer with an interior pointer (use a binds clause for results that point into other objects)"))
	}
	if a.Kind != b.Kind || len(a.Path) != len(b.Path) {
		return TFalse
	}
	for i := range a.Path {
		if a.Path[i] != b.Path[i] {
			return TFalse
		}
	}
	switch a.Kind {
	case PHeap:
		return Eq(a.Ref, b.Ref)
	case PElem:
		return And(Eq(a.Arr, b.Arr), Eq(a.Idx, b.Idx))
	case PCell:
		if a.Cell == b.Cell {
			return TTrue
		}
		return TFalse
	}
	panic(unsupported("comparison of unknown pointers"))
}
