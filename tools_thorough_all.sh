#!/bin/bash
# runs the thorough command of every claimed property in sequence and prints wall time and peak memory per property
cd /verif
ids="$@"; [ -z "$ids" ] && ids=$(python3 -c "import json; print(' '.join(c['property_id'] for c in json.load(open('MANIFEST.json'))['checks']))")
for p in $ids; do
  /usr/bin/time -f "$p thorough wall %es maxrss %MKB" ./check $p thorough 2>&1 | grep -E "^property|^VIOLATION|^UNSUPPORTED|wall|Killed" | cut -c1-220
  echo "$p exit=${PIPESTATUS[0]}"
done
