#!/bin/bash
# regenerate claims files from the current (unchanged) tree; review the diff before committing
cd /verif
for p in "$@"; do
  level=proof; case "$p" in C07|C09|C10|C15|C16|C20) level=other;; esac
  /usr/bin/time -f "$p wall %es" ./bin/govc check -property $p -level $level -update-claims 2>&1 | grep -v "^wrote" | tail -6
done
