#!/usr/bin/env python3
"""Writes /verif/MANIFEST.json from the table below (kept as a script so the per-property texts stay in one place)."""
import json, subprocess
hook_commits = subprocess.run("git -C /repo log --format=%H --grep='^verif:' --reverse", shell=True, capture_output=True, text=True).stdout.split()
TECH = "contract-based deductive verification: VC generation by symbolic execution of go/ssa (naive form) of the real functions against //@ contracts, discharged by z3 5.1 / cvc5 1.0 / z3 4.8"
NOTE = "mathematical ints; non-int element types are abstract sorts with operator symbols named after Go's operators (congruence reasoning only); pools (BorrowInts) trusted to return fresh zeroed slices; iterator interface contract over ghost state; go/ssa and the SMT solvers trusted"
P = {
 "C01": ("proof", "Ltoi (coordinate -> offset, per-axis bound check incl. negative coordinates, arity), CalcStrides and CalcStridesColMajor are proved against their postconditions for all lengths and values (unbounded loops with invariants)", "DESIGN.md 5 C01"),
 "C02": ("proof", "CheckSlice, SliceDetails proved for all inputs; AP.S proved in rank-bounded mode (every rank 0..3 quick / 0..4 thorough, all sizes, strides, offsets and slice triples symbolic): error iff an invalid range, start offset, window end, per-axis length = ceil((end-start)/step), stride scaling, axis dropping, frames. Two statement-level clauses fail and are listed as known findings (axis-0 rounding, empty range)", "DESIGN.md 5 C02"),
 "C03": ("proof", "IsMonotonicInts, UnsafePermute (proved for all lengths), AP.T, Dense.T, Dense.UT and Dense.Transpose (rank-bounded: every rank 0..3 quick / 0..4 thorough, all extents and strides symbolic): a transposed view has shape/strides permuted by the axes, invalid or repeated axes yield an error, identity permutation is a no-op error, T followed by UT restores the access pattern, Transpose materialises exactly when a view is pending; the element-moving Transposer engine call is a trusted contract", "DESIGN.md 5 C03"),
 "C04": ("proof", "the view mechanism and the whole-tensor writes are proved: Dense.Slice returns a fresh tensor whose storage is the window [start,end) of the source's storage (same array, shifted offset, scaled by the element size) with the access pattern computed by AP.S, the source untouched and the mask windowed alike; array.zeroIter/memsetIter write exactly the offsets their iterator yields and leave every other storage position unchanged (unbounded, loop invariants with the ghost iterator sequence), array.Memset fills all; Dense.Zero/Memset on a view write only positions of the view's offset sequence; Clone/SafeT results share no metadata with the source (C19 contracts). The link FlatIterator = offset sequence of its access pattern, the byte-level fill array.Zero, copyDense and storage allocation are trusted contracts; element copies by Clone/Materialize are not under contract", "DESIGN.md 5 C04"),
 "C05": ("proof", "FlatIterator (Next/NextValidity/NextValid/NextInvalid/Reset/Done/SetReverse/SetForward and the specialised next routines) and FlatMaskedIterator proved against a ghost visit-order specification: each call yields the offset of the next coordinate in row-major order (reverse: descending), exactly size elements are yielded before the noop error, Reset restores the initial state", "DESIGN.md 5 C05"),
 "C06": ("proof", "every generated arithmetic and min/max kernel (1224 functions incl. the vecf32/vecf64 bodies) is proved to apply the specified operator to the specified operands at the specified index, with frame (iterator kernels via one-step contracts); the dispatch methods E.* (plain, Iter, Incr, Recv, IterIncr) select the kernel of the element type with the promised operand roles; operand preparation chooses flat kernels only for flat same-order operands; the generated engine methods StdEng.{Add,Sub,Mul,Div,Pow,Mod} and their tensor-scalar variants discharge every kernel/dispatch precondition at its call site (lengths, aliasing, the iterator of the right tensor at position 0) for every option mode and both layouts paths, and preserve their operands", "DESIGN.md 0.4 and 5 C06"),
 "C07": ("other", "partial: the generated engine methods StdEng.{Add,Sub,Mul,Div,Pow,Mod} and the 14 unary methods are proved, for every option mode and both the flat and the iterator path, to return a (unsafe), the reuse/increment tensor (reuse, incr) or a fresh tensor with fresh storage (safe), to leave operand b unchanged in every mode and operand a unchanged except in unsafe mode, and to hand every kernel the data and the iterator of the right tensor, rewound to position 0; the dispatch methods E.*Incr/E.*Recv write only their destination (a known finding: the single-element path of E.*Incr overwrites a); operand preparation selects flat kernels only for flat same-order operands including the destination; reuseCheckShape copies the expected shape. Option parsing is trusted (the selected reuse tensor and flags are uninterpreted functions of the option list); delivered values per mode, comparison and *Scalar methods and linear algebra are not under contract", "DESIGN.md 0.4 and 5 C07"),
 "C08": ("proof", "Sum, Prod, Reduce (left folds) and Argmax/Argmin (first index of the extreme, strict comparison) kernels proved against recursive fold specifications for all lengths", "DESIGN.md 5 C08"),
 "C09": ("other", "partial: the mapping from tensors to BLAS parameters is proved for StdEng.MatVecMul and StdEng.MatMul, all four float/complex element types, row- and column-major, plain and lazily transposed operands: the (trans, m, n, k, leading dimension, increment, operand order) handed to gemv/gemm address exactly the operands' logical matrices and vectors (index identity for all i,j quantified; the column-major call is recognised as the transposed reading C^T = B^T A^T with the intended factor order), and gonum's own argument preconditions hold. The BLAS routines themselves are trusted; operands must be contiguous and of one data order (strided operands, mixed orders and a single transposed column-major operand are observed defects stated as preconditions); Inner, Outer, TensorMul, Dot, Trace and the reuse/incr handling in dense_linalg.go are not under contract", "DESIGN.md 0.4 and 5 C09"),
 "C10": ("other", "partial: the shape calculators Shape.Concat and Shape.Repeat are proved (result shape per axis, operands unchanged, refusal of misfitting operands and bad axes, repeat counts copied not retained); the element-moving code (stacking, concatenation by slice-and-assign, repeat kernels) is engine glue over reflection and iterators and is not under contract", "DESIGN.md 5 C10"),
 "C11": ("proof", "every generated comparison kernel (1044 functions: bool and same-type results, vv/sv/vs, iterator variants) and every dispatch method is proved to deliver the truth value of Go's comparison of the specified operands in operand order, operands unchanged; the six generated engine methods StdEng.{Gt,Gte,Lt,Lte,ElEq,ElNe} are proved to write and return a in unsafe mode, the reuse tensor in reuse mode, and a fresh tensor of element type bool (or of a's type with AsSameType) in safe mode, to preserve both operands otherwise, and to hand every kernel the data and a rewound iterator of the right tensor. The *Scalar comparison methods are not under contract", "DESIGN.md 0.4 and 5 C11"),
 "C12": ("proof", "every generated unary kernel and map kernel (315 functions) proved against the specified scalar function per operation and element type (math/math32/cmplx routines as uninterpreted symbols named after the routine)", "DESIGN.md 5 C12"),
 "C13": ("proof", "Shape.S and AP.S proved against the same per-axis specification in rank-bounded mode (so the calculator agrees with execution); CalcStrides proved; CheckSlice/SliceDetails proved", "DESIGN.md 5 C13"),
 "C15": ("other", "partial: each generated masking predicate (MaskedEqual, NotEqual, Greater, GreaterEqual, Less, LessEqual, Inside, Outside; 13 element types each) is proved to mark exactly the elements satisfying Go's comparison - replacing a soft mask, or-ing into a hard one - with data unchanged (unbounded loop invariants); a slice carries the matching window of its source's mask (Dense.Slice); FlatMaskedIterator's validity stepping is proved (shared with C05); the validity-aware iterator kernels are checked under C06/C11/C12, not here. MaskedValues, mask reductions, run/edge finders and mask movement under transposition are not under contract", "DESIGN.md 5 C15"),
 "C16": ("other", "partial: the order flag algebra (HasSameOrder, setDataOrder, MakeDataOrder as bit-vector facts), column-major stride computation (CalcStridesColMajor, AP.calcStrides both orders), preservation of the order bits by AP.S and the contiguity flag it derives from the storage-outermost axis are proved; operations on column-major operands go through engine glue that is not under contract", "DESIGN.md 5 C16"),
 "C17": ("proof", "union of all schema instantiations: 2651 generated functions each satisfy the one type-generic contract schema of their family; structurally identical VCs across element types are solved once", "DESIGN.md 5 C17"),
 "C19": ("proof", "ownership discipline as per-function contracts over ghost state lib(array) in {caller, library, pooled}: T/SafeT/RollAxis/Shape.Repeat/reuseCheckShape/SetShape never retain, mutate or pool a caller slice; Clone/SafeT/AP.Clone/CloneTo/Shape.Clone results share no metadata array with their source; UT/Transpose/reuseCheckShape leave no reference to a pooled slice in a live tensor. Pools (BorrowInts/ReturnInts, borrowDense) and storage allocation are trusted contracts; histories are covered by each operation preserving the ownership invariant, not by exploring sequences", "DESIGN.md 5 C19"),
 "C20": ("other", "partial: the pure-Go divmod (build tag noasm) is proved against the contract the assembly version is trusted with, and Itol and the BitMap index arithmetic are verified under both tag sets; Float64Engine.FMA pairs data and iterators like the default engine; Float32Engine.Add and Float64Engine.Add are proved to have the default engine's modes (unsafe/reuse/incr/safe destinations, operands preserved) and, for flat operands, the same values (reuse = a+b, incr = incr + (a+b), unsafe: a = a+b). The in-place transposition, FMAScalar and Inner are not under contract", "DESIGN.md 0.4 and 5 C20"),
}
checks = []
for pid, (cat, text, ref) in sorted(P.items()):
    checks.append({
        "property_id": pid,
        "quick_cmd": "./check %s quick" % pid,
        "thorough_cmd": "./check %s thorough" % pid,
        "evidence_file": "/verif/evidence/%s.json" % pid,
        "replay_cmd_template": "./check %s --replay {path}" % pid,
        "engine": "govc",
        "level_claimed": {"category": cat, "text": text, "design_ref": ref},
        "level_note": NOTE,
        "technique": TECH,
    })
claimed = set(P)
NA = {
 "C14": "every anchored function is a thin driver around encoding/gob, regexp, strconv, csv, protobuf and flatbuffers over reflection; a contract making the round trip provable would be a hand-written model of those byte formats, not this code",
 "C18": "quantifies over schedules; function-by-function contracts over a sequential heap say nothing about interleavings or sync.Pool/channel internals, and no concurrency-aware deductive tool for Go is installed",
}
PENDING = "contracts for the functions this property is anchored in are not discharged yet (work in progress); not claimed until they are"
na = [{"property_id": k, "reason": v} for k, v in NA.items()]
for i in range(1, 21):
    pid = "C%02d" % i
    if pid not in claimed and pid not in NA:
        na.append({"property_id": pid, "reason": PENDING})
m = {
 "version": 1,
 "setup_cmd": "cd /verif/govc && GOFLAGS=-mod=mod GOPROXY=off GOSUMDB=off GOTOOLCHAIN=local go build -o /verif/bin/govc .",
 "hooks": {
  "guard": "verif",
  "enable": "-tags verif (comment-only contract files verif_contracts*.go; no executable hook code)",
  "baseline_off_cmd": "cd /repo && go test -mod=mod -vet=off -count=1 -timeout 25m ./...",
  "source_commits": hook_commits,
  "add_only": True,
 },
 "engines": [{"name": "govc", "path": "/verif/govc", "serves_properties": sorted(claimed),
   "kind_free_text": "contract-based deductive verifier for Go built for this task: symbolic execution of go/ssa (naive form) of the real functions against //@ contracts (requires/ensures/assigns/loop invariant/step/decreases, spec functions, schemas for generated code), obligations discharged by z3-new/cvc5/z3, counterexamples replayed on the real code via go test -overlay"}],
 "checks": checks,
 "not_applicable": sorted(na, key=lambda x: x["property_id"]),
 "notes": "known findings and repaired defects: /verif/known_findings.txt; seeded changes used to test the checks: /verif/seeded/",
}
json.dump(m, open("/verif/MANIFEST.json", "w"), indent=1)
print("claimed:", sorted(claimed))
